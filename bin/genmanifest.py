#!/usr/bin/env python3
"""Regenerates /verif/MANIFEST.json from props/*.json and the table below."""
import json, os, glob
V = os.path.dirname(os.path.dirname(os.path.abspath(__file__)))
LEVEL = {
 "C01": ("dispatch through the real NewRouter/Context/DefaultRouter/denco stack for every request target = concrete prefix ⧺ ≤2 (quick) / ≤4 (thorough) arbitrary path bytes × 5 method spellings × 4 API descriptions; reference dispatcher as oracle; every branch feasibility decided by SMT (or exact byte-domain evaluation), counterexamples replayed natively", "DESIGN.md §2 C01"),
 "C02": ("exhaustive symbolic execution of the real untyped stack (router → secure API → binder → handler → Respond) over 12 requirement structures × every evaluation order of the schemes inside each alternative × global/per-operation × authorizer × all per-scheme outcomes × request otherwise valid/invalid; declarative OR-of-ANDs oracle evaluated per evaluation order, with the rejections observed in the authenticators' call log accounted for", "DESIGN.md §2 C02, §8.3"),
 "C03": ("the real untyped binder (UntypedRequestBinder.Bind → untypedParamBinder → strconv/swag/reflect model) executed symbolically for every parameter text up to the per-kind length over the declaration lattice kinds × locations × required × default × allowEmptyValue × occurrences (quick: two slices of it, thorough: the product incl. 21-byte int64 texts), arrays in every collection format, and a four-parameter operation through the whole untyped stack; oracle = literal denotation [+-]?[0-9]+ with width range, swag's boolean true-set, reference split; declared validations are a nondeterministic stub", "DESIGN.md §2 C03"),
 "C04": ("client transport and server middleware built from one description and joined by an in-memory wire (RequestURI text → ParseRequestURI, header map, body bytes), executed symbolically end to end through Runtime.Submit → router → binder → handler → Respond → response adapter: every byte string of ≤2 (quick) / ≤3 (thorough) bytes as path value and ≤1 / ≤2 bytes as query, header, urlencoded-form and repeated query values; answer direction with symbolic header and body bytes", "DESIGN.md §2 C04"),
 "C05": ("bounded symbolic execution of the real denco Build/Lookup: every lookup path of ≤4 (quick) / ≤7 (thorough) arbitrary bytes against each catalogue table and build order; paths around every pattern of 6 route-set-like tables (pattern instance cut anywhere ⧺ arbitrary bytes); a generated table of 4 500 (7 500) records with >100 000 trie slots and symbolic tails; naive segment matcher as oracle", "DESIGN.md §2 C05, §8.3"),
 "C06": ("both binding entry points executed symbolically on the same request for every Content-Type = spelling ⧺ arbitrary bytes / raw bytes, 6 consumes lists, 4 body signalling forms, 2 methods; admission oracle from the statement; differential assertion between the entry points", "DESIGN.md §2 C06"),
 "C07": ("symbolic execution of ParseAccept/NegotiateContentType/NegotiateContentEncoding: totality over arbitrary header bytes, selection oracle over range catalogues with symbolic q digits, q-order preservation with exact (tabulated / monotone-threshold) float encodings up to 21 digits", "DESIGN.md §2 C07"),
 "C08": ("exhaustive lattice produces × success code × method × Accept × handler outcome through the real untyped stack with instrumented producers; basic-auth challenge with symbolic realm", "DESIGN.md §2 C08"),
 "C09": ("all accessor sequences up to length 3 (quick) / 5 (thorough) with call counters; sequential two-request isolation; shared-write monitor over one request from a warmed-up shared Context (inductive step for any number of concurrent requests)", "DESIGN.md §2 C09"),
 "C10": ("symbolic execution of the client URL construction (buildHTTP, PathEscape, url.Parse, EscapedPath) for path values of ≤1 (quick) / ≤2 (thorough) arbitrary bytes and placeholder-looking values over base-path × pattern catalogues, all set orders (thorough: all map iteration orders), caller/pattern/base query precedence; scheme selection exhaustive over lists of ≤3", "DESIGN.md §2 C10"),
 "C11": ("request.buildHTTP executed symbolically for every payload kind (nil, produced value, io.Reader, io.ReadCloser, urlencoded form, multipart files, multipart field+files) with symbolic values, contents, chunkings and file names, the multipart writer goroutine and io.Pipe on the cooperative scheduler; the sent bytes are compared with the payload (multipart documents re-read with the standard reader, part types against DetectContentType of the content) and with every GetBody result an auth writer obtained (0, 1 or 2 calls)", "DESIGN.md §2 C11"),
 "C12": ("Runtime.Submit executed symbolically with the multipart writer goroutine and io.Pipe on a cooperative scheduler (every wake-up order explored) under every fault placement of the stated lattice: failing parameter/auth writer, unbuildable URL/method, upload sources failing at a symbolic offset with their own or io's sentinel error, transport failing before/after the request body, response bodies ending or failing at a symbolic offset, readers stopping early, reuse on/off; obligations: error unless complete, files closed, response body closed once (drained first under reuse), no goroutine left, request context derived with the timeout and cancelled; plus every Read-size sequence then Close on the draining body", "DESIGN.md §2 C12, §8.3"),
 "C13": ("Runtime.Submit executed symbolically behind a scripted RoundTripper ((*http.Client).Do modelled as Transport.RoundTrip): consumer selection for every response Content-Type = absent / spelling (+ parameter) / spelling ⧺ ≤1 (quick) / ≤2 (thorough) arbitrary bytes / ≤2 / ≤3 raw bytes over 5 registries, status codes and header sets through the response adapter; client/context precedence over call histories of 2 (3) (exhaustive); shared-write monitor over one Submit from a Runtime whose client exists, is created by this call, or was supplied without transport (inductive step for any number of concurrent callers)", "DESIGN.md §2 C13, §8.3"),
 "C14": ("client credential writers composed with the server authenticators on the same *http.Request: user/password/token of ≤2 (quick) / ≤4 (thorough) symbolic bytes through the real base64 encode/decode, header/query/form placements and precedence, default-auth lattice", "DESIGN.md §2 C14"),
 "C18": ("exhaustive symbolic execution of TLSClientAuth over the whole option lattice with the crypto/file environment stubbed by nondeterministic outcomes; witnesses replayed against real crypto with the repository's fixtures", "DESIGN.md §2 C18"),
 "C19": ("verify() on duplicate-free lists of ≤2 (quick) / ≤3 (thorough) one-byte symbolic names with set-equality/sortedness oracles decided by SMT; Validate() over description × registration-variation catalogue (exact, each omission, additions); every declared operation of 4 validated descriptions served through the real untyped stack under every declared request and response media type", "DESIGN.md §2 C19, §8.3"),
 "C20": ("spec and UI middlewares over option catalogues with symbolic bytes and request paths = document path variants ⧺ symbolic tails / raw symbolic bytes; composition as built by the API handlers over absolute spec URLs", "DESIGN.md §2 C20"),
 "C15": ("byte-stream and text consumers/producers executed symbolically for contents of ≤2 (quick) / ≤3 (thorough) symbolic bytes over every documented destination/payload kind (plus nil, non-pointer, unsupported, pre-populated), readers with arbitrary chunking, empty reads, data+EOF and failures after any byte, sinks failing at any offset, closing option on/off; reflect calls through the engine's reflect model", "DESIGN.md §2 C15"),
 "C16": ("CSV consumer/producer over every CSV text of ≤3 (quick) / ≤4 (thorough) symbolic bytes through the real encoding/csv reader/writer, 8 option sets, 10 destination and 8 source kinds (incl. io.WriterTo through the real io.Pipe/errgroup goroutines); oracle = csv.Reader.ReadAll with the same options; kinds agree pairwise, no partial success, no aliasing, no panic for any destination pre-state", "DESIGN.md §2 C16"),
 "C17": ("every sequence of ≤3 (quick) / ≤4 (thorough) HasBody/Read/Close operations over a body of ≤2/≤3 symbolic bytes with nondeterministic chunking, empty reads, data+EOF and failures at any offset, through the real bufio.Reader", "DESIGN.md §2 C17"),
}
NOTE = "trusted: go/packages+go/ssa, the symgo interpreter with its leaf models (bytealg, sync, atomic, reflect, time), z3; configurations limited to the stated catalogues; see evidence.assumptions"
TECH = "symbolic execution of go/ssa + SMT (z3, QF_BV/FP) path exploration, native counterexample replay"
NA_REASON = {}
props = [json.loads(l) for l in open(os.path.join(V, "properties.jsonl"))]
built = sorted(os.path.basename(p)[:-5] for p in glob.glob(os.path.join(V, "props", "C*.json")))
checks, na = [], []
for p in props:
    pid = p["id"]
    if pid in built and pid in LEVEL:
        text, ref = LEVEL[pid]
        checks.append({"property_id": pid, "engine": "symgo",
            "quick_cmd": "bin/check %s quick" % pid, "thorough_cmd": "bin/check %s thorough" % pid,
            "replay_cmd_template": "bin/check %s --replay {path}" % pid,
            "evidence_file": "evidence/%s.json" % pid,
            "level_claimed": {"category": "model_checking", "text": text, "design_ref": ref},
            "level_note": NOTE, "technique": TECH})
    else:
        na.append({"property_id": pid, "reason": NA_REASON.get(pid, "check not built yet in this session (solver-based harness under construction); not claimed")})
m = {"version": 1,
 "setup_cmd": "cd /verif/engine && GOFLAGS=-mod=mod GOPROXY=off GOSUMDB=off GOTOOLCHAIN=local go build -o ../bin/symgo ./cmd/symgo",
 "hooks": {"guard": "verif",
   "enable": "harnesses (//go:build verif) and the zzverif nondet package are injected with go/packages Overlay (engine) and `go test -tags verif,verif_replay -overlay` (native replay); no hook is committed to /repo",
   "baseline_off_cmd": "cd /repo && go test -vet=off -count=1 -timeout 25m ./...",
   "source_commits": [], "add_only": True},
 "engines": [{"name": "symgo", "path": "engine", "serves_properties": [c["property_id"] for c in checks],
   "kind_free_text": "symbolic SSA interpreter (go/packages+go/ssa of /repo's working tree, regenerated on every run) with SMT back end (z3), decision-replay DFS over all feasible paths on 16 workers, native counterexample/witness replay"}],
 "checks": checks, "not_applicable": na,
 "notes": "fix: commits in /repo: see known_findings.json (fixed entries). Exit codes: 0 held, 1 VIOLATION (reproduced natively), 2 inconclusive/engine fault."}
json.dump(m, open(os.path.join(V, "MANIFEST.json"), "w"), indent=1, ensure_ascii=False)
print("checks:", [c["property_id"] for c in checks], "n/a:", [n["property_id"] for n in na])
