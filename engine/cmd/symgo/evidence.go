package main

import (
	"encoding/json"
	"fmt"
	"os"
	"path/filepath"
	"sort"
	"strings"
)

func writeEvidence(p *PropCfg, tier string, seed int, runs []harnessRun, validated, violations int,
	knownLines, inconclusive []string, confirmed []map[string]interface{}, wall, loadS float64) error {

	states, transitions := 0, int64(0)
	var samples []interface{}
	fnRepo, fnStd, fnModel := map[string]bool{}, map[string]bool{}, map[string]bool{}
	stubbed := map[string]bool{}
	queries := map[string]int{}
	solverS := 0.0
	reach := map[string]int{}
	perHarness := []map[string]interface{}{}
	discharged, trivial, unknownQ, infeasible := 0, 0, 0, 0
	knownHit := map[string]int{}
	exhaustive := true
	var steps int64
	domDecided, domAudited := 0, 0
	for _, r := range runs {
		rep := r.rep
		domDecided += rep.DomainDecided
		domAudited += rep.DomainAudited
		states += rep.Paths
		transitions += rep.Decisions
		steps += rep.Steps
		discharged += rep.Discharged
		trivial += rep.Trivial
		unknownQ += rep.UnknownQ
		infeasible += rep.Infeasible
		if !rep.Complete {
			exhaustive = false
		}
		for k, v := range rep.KnownCount {
			knownHit[k] += v
		}
		for _, s := range rep.Samples {
			if len(samples) < 10 {
				samples = append(samples, map[string]interface{}{"harness": r.cfg.Func, "decisions": s.Decisions, "inputs": s.Inputs, "status": s.Status, "reach": s.Reach, "steps": s.Steps})
			}
		}
		for _, w := range rep.Witnesses {
			if len(samples) < 14 {
				samples = append(samples, map[string]interface{}{"harness": r.cfg.Func, "witness_inputs": w.Draws, "observes": w.Observes})
			}
		}
		for _, f := range rep.Stubbed {
			stubbed[f] = true
		}
		for f := range rep.Functions {
			switch {
			case strings.Contains(f, "zzverif"):
			case strings.Contains(f, "github.com/go-openapi/runtime"):
				fnRepo[f] = true
			case strings.Contains(f, "github.com/") || strings.Contains(f, "golang.org/") || strings.Contains(f, "gopkg.in/") || strings.Contains(f, "go.opentelemetry.io/"):
				fnStd[f] = true
			default:
				fnStd[f] = true
			}
		}
		queries["sat"] += rep.Queries.Sat
		queries["unsat"] += rep.Queries.Unsat
		queries["unknown"] += rep.Queries.Unknown
		queries["errors"] += rep.Queries.Errors
		queries["total"] += rep.Queries.Total
		solverS += rep.SolverTime.Seconds()
		for l, n := range rep.Reach {
			reach[r.cfg.Func+":"+l] += n
		}
		tc := r.cfg.Tiers[tier]
		perHarness = append(perHarness, map[string]interface{}{
			"harness": importPath(r.cfg.Pkg) + "." + r.cfg.Func, "paths": rep.Paths, "by_status": rep.ByStatus,
			"decisions": rep.Decisions, "max_decision_depth": rep.MaxDepth, "instructions": rep.Steps,
			"assertions_discharged_unsat": rep.Discharged, "assertions_trivially_true": rep.Trivial,
			"infeasible_alternatives_pruned": rep.Infeasible,
			"complete":                       rep.Complete, "params": tc.Params, "bounds": r.cfg.Bounds, "subject": r.cfg.Subject,
			"solver_s": rep.SolverTime.Seconds(), "wall_s": rep.Wall.Seconds(),
			"cross_solver": rep.Cross,
		})
	}
	_ = fnModel
	keys := func(m map[string]bool, max int) []string {
		var ks []string
		for k := range m {
			ks = append(ks, k)
		}
		sort.Strings(ks)
		if len(ks) > max {
			ks = append(ks[:max], fmt.Sprintf("… and %d more", len(ks)-max))
		}
		return ks
	}
	if samples == nil {
		samples = []interface{}{}
	}
	cov := map[string]interface{}{
		"states":                        states,
		"transitions":                   transitions,
		"traces_validated_against_impl": validated,
		"samples":                       samples,
		"exhaustive":                    exhaustive && len(inconclusive) == 0,
		"explanation": "states = feasible execution paths of the harness explored to completion by the symbolic SSA interpreter (each covers every input satisfying its path condition); transitions = decisions taken (symbolic branches, concretisations, Choose); " +
			"every Assert on every path is an SMT query PC∧¬A (unsat = holds for all inputs of that path); traces_validated = sampled paths whose solver model was replayed against the native build with identical observations",
		"functions_encoded":                      map[string]interface{}{"repo": keys(fnRepo, 400), "stdlib_and_deps_count": len(fnStd), "stdlib_and_deps_sample": keys(fnStd, 60)},
		"harnesses":                              perHarness,
		"queries":                                queries,
		"assertion_obligations":                  map[string]int{"discharged_unsat": discharged, "trivially_true_on_path": trivial, "unknown": unknownQ},
		"infeasible_alternatives":                infeasible,
		"decisions_by_byte_domain_propagation":   domDecided,
		"byte_domain_verdicts_audited_by_solver": domAudited,
		"instructions_interpreted":               steps,
		"solver_s":                               solverS,
		"load_and_ssa_build_s":                   loadS,
		"reach_labels":                           reach,
		"known_findings_hit":                     knownHit,
		"known_finding_lines":                    knownLines,
		"inconclusive":                           inconclusive,
		"confirmed_violations":                   confirmed,
		"outside_claim":                          p.Outside,
		"solver":                                 "z3 (one long-lived `z3 -in` per worker; any (error line or unknown = inconclusive)",
		"encoding_regenerated_from":              "/repo working tree via go/packages + go/ssa on this run",
	}
	ev := map[string]interface{}{
		"property_id": p.ID,
		"tier":        tier,
		"seed":        seed,
		"level":       "model_checking",
		"coverage":    cov,
		"assumptions": p.Assumptions,
		"wall_s":      wall,
		"violations":  violations,
	}
	if ev["assumptions"] == nil {
		ev["assumptions"] = []string{}
	}
	data, err := json.MarshalIndent(ev, "", " ")
	if err != nil {
		return err
	}
	dir := filepath.Join(outDir, "evidence")
	os.MkdirAll(dir, 0o755)
	return os.WriteFile(filepath.Join(dir, p.ID+".json"), data, 0o644)
}
