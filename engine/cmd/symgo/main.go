// Command symgo drives the symbolic SSA interpreter: it loads /repo's current
// working tree plus overlay harnesses, explores every feasible path of each
// harness, replays counterexamples natively and writes the evidence file.
package main

import (
	"bytes"
	"encoding/json"
	"flag"
	"fmt"
	"os"
	"os/exec"
	"path/filepath"
	"sort"
	"strconv"
	"strings"
	"time"

	"golang.org/x/tools/go/packages"
	"golang.org/x/tools/go/ssa"
	"golang.org/x/tools/go/ssa/ssautil"
	"symgo/interp"
	"symgo/smt"
)

const modPath = "github.com/go-openapi/runtime"

type TierCfg struct {
	Params        map[string]int `json:"params"`
	MaxSteps      int64          `json:"max_steps"`
	MaxDecisions  int            `json:"max_decisions"`
	MaxPaths      int            `json:"max_paths"`
	MaxConcretize int            `json:"max_concretize"`
	QueryTimeout  int            `json:"query_timeout_ms"`
	TimeLimitS    int            `json:"time_limit_s"`
	Witnesses     int            `json:"witnesses"`
	MapOrders     bool           `json:"map_orders"`
	CrossSolver   string         `json:"cross_solver"` // e.g. "z3-new -in": explore the harness a second time with this solver and compare
}

type HarnessCfg struct {
	Pkg     string             `json:"pkg"`  // import path relative to module ("" = root)
	Func    string             `json:"func"` // harness function
	Reach   []string           `json:"reach"`
	Tiers   map[string]TierCfg `json:"tiers"`
	Bounds  string             `json:"bounds"` // human-readable statement of bounds
	Subject []string           `json:"subject"`
	// NativeRetries: counterexamples of this harness depend on a native map
	// iteration order; their replay is repeated up to this many times.
	NativeRetries int `json:"native_retries"`
}

type PropCfg struct {
	ID          string       `json:"id"`
	Files       []string     `json:"files"` // harness files: "<pkg dir>/<file>" under /verif/harness/repo
	Harnesses   []HarnessCfg `json:"harnesses"`
	Assumptions []string     `json:"assumptions"`
	Outside     []string     `json:"outside_claim"`
}

type KnownFinding struct {
	ID       string `json:"id"`
	Property string `json:"property"`
	Status   string `json:"status"` // known | fixed
	What     string `json:"what"`
	Commit   string `json:"commit,omitempty"`
}

var (
	verifDir = "/verif"
	repoDir  = "/repo"
	outDir   = "/verif" // evidence/ and replays/ are written below this directory
)

// SYMGO_REPO / SYMGO_OUT redirect the tree under test and the output directory;
// used only by bin/mutcheck to run a check against a scratch worktree carrying a
// seeded change without touching /repo or the committed evidence.
func init() {
	// the machinery lives next to the binary (<verif>/bin/symgo): a snapshot of
	// /verif run from elsewhere then uses its own props, harnesses and findings
	if exe, err := os.Executable(); err == nil {
		if d := filepath.Dir(filepath.Dir(exe)); fileExists(filepath.Join(d, "props")) && fileExists(filepath.Join(d, "harness")) {
			verifDir, outDir = d, d
		}
	}
	if v := os.Getenv("SYMGO_REPO"); v != "" {
		repoDir = v
	}
	if v := os.Getenv("SYMGO_OUT"); v != "" {
		outDir = v
	}
}

func main() {
	if len(os.Args) < 2 {
		fmt.Fprintln(os.Stderr, "usage: symgo check|replay|explore ...")
		os.Exit(2)
	}
	switch os.Args[1] {
	case "check":
		os.Exit(cmdCheck(os.Args[2:]))
	case "replay":
		os.Exit(cmdReplay(os.Args[2:]))
	default:
		fmt.Fprintln(os.Stderr, "unknown command", os.Args[1])
		os.Exit(2)
	}
}

func loadProp(id string) (*PropCfg, error) {
	data, err := os.ReadFile(filepath.Join(verifDir, "props", id+".json"))
	if err != nil {
		return nil, err
	}
	var p PropCfg
	if err := json.Unmarshal(data, &p); err != nil {
		return nil, fmt.Errorf("props/%s.json: %v", id, err)
	}
	return &p, nil
}

func loadKnown() (map[string]KnownFinding, error) {
	data, err := os.ReadFile(filepath.Join(verifDir, "known_findings.json"))
	if err != nil {
		return nil, err
	}
	var f struct {
		Findings []KnownFinding `json:"findings"`
	}
	if err := json.Unmarshal(data, &f); err != nil {
		return nil, err
	}
	m := map[string]KnownFinding{}
	for _, k := range f.Findings {
		m[k.ID] = k
	}
	return m, nil
}

// overlayFor maps virtual /repo paths to the harness sources under /verif.
func overlayFor(p *PropCfg, native bool) (map[string]string, error) {
	ov := map[string]string{}
	zdir := filepath.Join(verifDir, "harness", "zzverif")
	if native {
		ov[filepath.Join(repoDir, "internal/zzverif/native.go")] = filepath.Join(zdir, "native.go")
	} else {
		ov[filepath.Join(repoDir, "internal/zzverif/engine.go")] = filepath.Join(zdir, "engine.go")
	}
	for _, f := range p.Files {
		src := filepath.Join(verifDir, "harness", "repo", f)
		if _, err := os.Stat(src); err != nil {
			return nil, err
		}
		ov[filepath.Join(repoDir, f)] = src
	}
	return ov, nil
}

func importPath(rel string) string {
	if rel == "" || rel == "." {
		return modPath
	}
	return modPath + "/" + rel
}

func loadProgram(p *PropCfg) (*ssa.Program, error) {
	ovPaths, err := overlayFor(p, false)
	if err != nil {
		return nil, err
	}
	ov := map[string][]byte{}
	for virt, real := range ovPaths {
		data, err := os.ReadFile(real)
		if err != nil {
			return nil, err
		}
		ov[virt] = data
	}
	pats := []string{"runtime", "unicode/utf8", modPath + "/internal/zzverif"}
	seen := map[string]bool{}
	for _, h := range p.Harnesses {
		ip := importPath(h.Pkg)
		if !seen[ip] {
			seen[ip] = true
			pats = append(pats, ip)
		}
	}
	cfg := &packages.Config{
		Mode:       packages.LoadAllSyntax,
		Dir:        repoDir,
		BuildFlags: []string{"-tags=verif"},
		Overlay:    ov,
		Env:        append(os.Environ(), "GOFLAGS=-mod=mod", "GOPROXY=off", "GOSUMDB=off", "GOTOOLCHAIN=local"),
	}
	restore := guardModFiles()
	pkgs, err := packages.Load(cfg, pats...)
	restore()
	if err != nil {
		return nil, err
	}
	nerr := 0
	packages.Visit(pkgs, nil, func(pk *packages.Package) {
		for _, e := range pk.Errors {
			if nerr < 20 {
				fmt.Fprintf(os.Stderr, "load error: %v\n", e)
			}
			nerr++
		}
	})
	if nerr > 0 {
		return nil, fmt.Errorf("%d package load errors (harness no longer compiles against the tree?)", nerr)
	}
	prog, _ := ssautil.AllPackages(pkgs, ssa.InstantiateGenerics)
	prog.Build()
	return prog, nil
}

type harnessRun struct {
	cfg HarnessCfg
	rep *interp.Report
}

func cmdCheck(args []string) int {
	fs := flag.NewFlagSet("check", flag.ExitOnError)
	propID := fs.String("prop", "", "property id")
	tier := fs.String("tier", "quick", "quick|thorough")
	workers := fs.Int("workers", 16, "workers")
	verbose := fs.Bool("v", false, "verbose")
	trace := fs.Bool("trace", false, "trace instructions")
	only := fs.String("only", "", "run only this harness function")
	noReplay := fs.Bool("noreplay", false, "skip native replays (debug)")
	solver := fs.String("solver", "z3 -in", "solver command")
	noDom := fs.Bool("nodomains", os.Getenv("SYMGO_NODOMAINS") != "", "disable byte-domain propagation (every decision goes to the solver)")
	domAudit := fs.Int("domaudit", 50, "re-decide every n-th byte-domain verdict with the solver")
	slow := fs.Float64("slowq", 0, "log solver queries slower than this many seconds")
	fs.Parse(args)
	if *slow > 0 {
		smt.SlowQuery = time.Duration(*slow * float64(time.Second))
	}
	start := time.Now()
	seed := 0
	if s := os.Getenv("VERIF_SEED"); s != "" {
		fmt.Sscan(s, &seed)
	}
	p, err := loadProp(*propID)
	if err != nil {
		fmt.Fprintln(os.Stderr, "ERROR:", err)
		return 2
	}
	known, err := loadKnown()
	if err != nil {
		fmt.Fprintln(os.Stderr, "ERROR:", err)
		return 2
	}
	t0 := time.Now()
	prog, err := loadProgram(p)
	if err != nil {
		fmt.Fprintln(os.Stderr, "ERROR:", err)
		return 2
	}
	loadS := time.Since(t0).Seconds()
	fmt.Fprintf(os.Stderr, "[%s %s] loaded and built SSA from %s in %.1fs\n", p.ID, *tier, repoDir, loadS)

	var runs []harnessRun
	inconclusive := []string{}
	for _, h := range p.Harnesses {
		if *only != "" && h.Func != *only {
			continue
		}
		tc, ok := h.Tiers[*tier]
		if !ok {
			tc = h.Tiers["quick"]
		}
		fn := interp.FindHarness(prog, importPath(h.Pkg), h.Func)
		if fn == nil {
			fmt.Fprintf(os.Stderr, "ERROR: harness %s.%s not found\n", h.Pkg, h.Func)
			return 2
		}
		cfg := &interp.Config{
			Verbose: *verbose, Trace: *trace,
			MaxSteps: def64(tc.MaxSteps, 5_000_000), MaxDecisions: defInt(tc.MaxDecisions, 400),
			MaxConcretize: defInt(tc.MaxConcretize, 64), MaxCallDepth: 400,
			QueryTimeoutMs: defInt(tc.QueryTimeout, 10000),
			SolverArgv:     strings.Fields(*solver),
			MapOrders:      tc.MapOrders,
			VolatilePrefix: []string{modPath},
			Params:         tc.Params,
			ByteDomains:    !*noDom,
			DomainAudit:    *domAudit,
		}
		opt := interp.Options{Workers: *workers, MaxPaths: tc.MaxPaths, WitnessEvery: 1, MaxWitnesses: defInt(tc.Witnesses, 12),
			TimeLimit: time.Duration(tc.TimeLimitS) * time.Second, Progress: true}
		if opt.MaxWitnesses > 0 {
			opt.WitnessEvery = 7 + seed%5
		}
		if v, err := strconv.Atoi(os.Getenv("SYMGO_WITNESSES")); err == nil && v > 0 {
			// debugging aid: replay many more witness paths natively (hunting for
			// engine/native disagreements, e.g. native map-order dependence)
			opt.MaxWitnesses = v
		}
		if tc.MapOrders {
			// a path that depends on a map iteration order cannot be steered
			// natively (Go randomises it): no witness replays in such tiers
			opt.MaxWitnesses, opt.WitnessEvery = 0, 0
		}
		rep, err := interp.Explore(prog, fn, cfg, opt)
		if err != nil {
			fmt.Fprintln(os.Stderr, "ERROR:", err)
			return 2
		}
		fmt.Fprintf(os.Stderr, "[%s] %s: %d paths %v, %d decisions, %d steps, discharged %d (+%d trivial), queries %d (sat %d unsat %d unknown %d), domain-decided %d (audited %d), solver %.1fs, wall %.1fs, complete=%v\n",
			p.ID, h.Func, rep.Paths, rep.ByStatus, rep.Decisions, rep.Steps, rep.Discharged, rep.Trivial,
			rep.Queries.Total, rep.Queries.Sat, rep.Queries.Unsat, rep.Queries.Unknown, rep.DomainDecided, rep.DomainAudited, rep.SolverTime.Seconds(), rep.Wall.Seconds(), rep.Complete)
		for _, f := range rep.Faults {
			fmt.Fprintf(os.Stderr, "   FAULT %s\n", f)
		}
		if !rep.Complete {
			inconclusive = append(inconclusive, h.Func+": exploration incomplete (path/time limit)")
		}
		if n := rep.ByStatus["bound"] + rep.ByStatus["unsupported"] + rep.ByStatus["deadlock"]; n > 0 {
			inconclusive = append(inconclusive, fmt.Sprintf("%s: %d paths ended in bound/unsupported/deadlock", h.Func, n))
		}
		if rep.UnknownQ > 0 || rep.Queries.Errors > 0 {
			inconclusive = append(inconclusive, fmt.Sprintf("%s: %d assertion queries unknown, %d solver errors", h.Func, rep.UnknownQ, rep.Queries.Errors))
		}
		for _, l := range h.Reach {
			if rep.Reach[l] == 0 {
				inconclusive = append(inconclusive, fmt.Sprintf("%s: expected label %q reached on no path (vacuity)", h.Func, l))
			}
		}
		if tc.CrossSolver != "" {
			// second exploration with another solver: every feasibility and
			// assertion verdict is re-decided independently; the explorations must
			// agree on the number of paths per outcome and on the violated labels
			cfg2 := *cfg
			cfg2.SolverArgv = strings.Fields(tc.CrossSolver)
			opt2 := opt
			opt2.MaxWitnesses, opt2.WitnessEvery, opt2.Progress = 0, 0, false
			rep2, err := interp.Explore(prog, fn, &cfg2, opt2)
			if err != nil {
				fmt.Fprintln(os.Stderr, "ERROR:", err)
				return 2
			}
			agree := rep2.Paths == rep.Paths && fmt.Sprint(rep2.ByStatus) == fmt.Sprint(rep.ByStatus) &&
				violLabels(rep2.Violations) == violLabels(rep.Violations) && rep2.Discharged == rep.Discharged
			fmt.Fprintf(os.Stderr, "[%s] %s: cross-solver %q: %d paths %v, discharged %d, queries %d (unknown %d), agree=%v\n",
				p.ID, h.Func, tc.CrossSolver, rep2.Paths, rep2.ByStatus, rep2.Discharged, rep2.Queries.Total, rep2.Queries.Unknown, agree)
			rep.Cross = &interp.CrossCheck{Solver: tc.CrossSolver, Paths: rep2.Paths, Discharged: rep2.Discharged, Queries: rep2.Queries.Total, Agree: agree}
			if !agree {
				inconclusive = append(inconclusive, fmt.Sprintf("%s: solvers disagree (%s: %d paths %v / %s: %d paths %v)", h.Func, *solver, rep.Paths, rep.ByStatus, tc.CrossSolver, rep2.Paths, rep2.ByStatus))
			}
		}
		runs = append(runs, harnessRun{h, rep})
	}

	// ---- native replays: violations, known findings, witnesses ----
	type pending struct {
		kind string // violation | known | witness
		h    HarnessCfg
		v    interp.Violation
		w    *interp.Witness
		c    replayCase
	}
	var pend []pending
	for _, r := range runs {
		tc := r.cfg.Tiers[*tier]
		for _, v := range r.rep.Violations {
			pend = append(pend, pending{kind: "violation", h: r.cfg, v: v, c: replayCase{Harness: r.cfg.Func, Draws: v.Draws, Params: tc.Params, Retries: r.cfg.NativeRetries}})
		}
		seenK := map[string]bool{}
		for _, v := range r.rep.Known {
			if seenK[v.KnownID] {
				continue
			}
			seenK[v.KnownID] = true
			pend = append(pend, pending{kind: "known", h: r.cfg, v: v, c: replayCase{Harness: r.cfg.Func, Draws: v.Draws, Params: tc.Params, Retries: r.cfg.NativeRetries}})
		}
		for _, w := range r.rep.Witnesses {
			pend = append(pend, pending{kind: "witness", h: r.cfg, w: w, c: replayCase{Harness: r.cfg.Func, Draws: w.Draws, Params: tc.Params}})
		}
	}
	validated, mismatches := 0, 0
	exit := 0
	var violLines, knownLines []string
	var confirmed []map[string]interface{}
	if len(pend) > 0 && !*noReplay {
		byPkg := map[string][]int{}
		for k, pd := range pend {
			byPkg[pd.h.Pkg] = append(byPkg[pd.h.Pkg], k)
		}
		for pkg, idxs := range byPkg {
			var cases []replayCase
			for _, k := range idxs {
				cases = append(cases, pend[k].c)
			}
			results, out, err := nativeReplay(p, pkg, cases)
			if err != nil {
				fmt.Fprintf(os.Stderr, "ERROR: native replay failed: %v\n%s\n", err, out)
				return 2
			}
			for j, k := range idxs {
				pd := pend[k]
				if j >= len(results) {
					inconclusive = append(inconclusive, "native replay produced too few results")
					break
				}
				nr := results[j]
				switch pd.kind {
				case "witness":
					ok := nr.Outcome == "ok" && !nr.Diverged
					for name, want := range pd.w.Observes {
						if nr.Observes[name] != want {
							ok = false
							fmt.Fprintf(os.Stderr, "   WITNESS MISMATCH %s: observe %s engine=%s native=%s draws=%v\n", pd.h.Func, name, want, nr.Observes[name], pd.w.Draws)
						}
					}
					if ok {
						validated++
					} else {
						mismatches++
						fmt.Fprintf(os.Stderr, "   WITNESS MISMATCH %s: native outcome %s %s %s diverged=%v draws=%v\n", pd.h.Func, nr.Outcome, nr.Label, nr.Msg, nr.Diverged, pd.w.Draws)
					}
				case "violation":
					repro := (pd.v.Kind == "panic" && nr.Outcome == "panic") ||
						(pd.v.Kind == "assert" && nr.Outcome == "assert" && nr.Label == pd.v.Label)
					if !repro && (nr.Outcome == "assert" || nr.Outcome == "panic") && !nr.Diverged {
						// the solver's input does violate the property on the real build,
						// though at another assertion than the engine predicted (the two
						// can differ where a model, e.g. of reflect, panics earlier): the
						// native run is the ground truth and its label is what is reported
						fmt.Fprintf(os.Stderr, "   note: %s/%s predicted by the engine, native build fails %s %s on the same input\n", pd.h.Func, pd.v.Label, nr.Outcome, nr.Label)
						if nr.Label != "" {
							pd.v.Label = nr.Label
						}
						repro = true
					}
					if strings.HasPrefix(pd.v.Label, "no-unprotected-shared-write") {
						repro = true // confirmed by the race replay below, not by the single-threaded run
					}
					if repro {
						path := writeReplay(p, pd.h, pd.c, pd.v)
						violLines = append(violLines, fmt.Sprintf("VIOLATION property=%s replay=%s", p.ID, path))
						fmt.Fprintf(os.Stderr, "   violation %s/%s (%s) reproduced natively: %s %s\n", pd.h.Func, pd.v.Label, pd.v.Msg, nr.Outcome, nr.Msg)
						confirmed = append(confirmed, map[string]interface{}{"harness": pd.h.Func, "label": pd.v.Label, "draws": pd.v.Draws, "native": nr.Outcome + " " + nr.Msg})
					} else {
						path := writeReplay(p, pd.h, pd.c, pd.v)
						inconclusive = append(inconclusive, fmt.Sprintf("%s: counterexample for %q did not reproduce natively (native: %s %s %s, diverged=%v; replay %s): engine fault",
							pd.h.Func, pd.v.Label, nr.Outcome, nr.Label, nr.Msg, nr.Diverged, path))
					}
				case "known":
					kf, listed := known[pd.v.KnownID]
					repro := (nr.Outcome == "known" && nr.KnownID == pd.v.KnownID) || (pd.v.Kind == "panic" && nr.Outcome == "panic")
					switch {
					case !repro:
						inconclusive = append(inconclusive, fmt.Sprintf("%s: known-finding witness %s did not reproduce natively (native: %s %s %s)", pd.h.Func, pd.v.KnownID, nr.Outcome, nr.Label, nr.Msg))
					case listed && kf.Status == "known" && kf.Property == p.ID:
						knownLines = append(knownLines, fmt.Sprintf("KNOWN-FINDING: property=%s %s (%s)", p.ID, kf.What, kf.ID))
					default:
						// not listed, or listed as fixed: it is a violation again
						path := writeReplay(p, pd.h, pd.c, pd.v)
						violLines = append(violLines, fmt.Sprintf("VIOLATION property=%s replay=%s", p.ID, path))
					}
				}
			}
		}
	} else if len(pend) > 0 {
		for _, pd := range pend {
			if pd.kind == "violation" {
				fmt.Fprintf(os.Stderr, "   (unreplayed) violation %s/%s %s draws=%v\n", pd.h.Func, pd.v.Label, pd.v.Msg, pd.v.Draws)
			}
			if pd.kind == "known" {
				fmt.Fprintf(os.Stderr, "   (unreplayed) known %s/%s %s draws=%v\n", pd.h.Func, pd.v.Label, pd.v.KnownID, pd.v.Draws)
			}
		}
	}
	if mismatches > 0 {
		inconclusive = append(inconclusive, fmt.Sprintf("%d witness paths disagree between engine and native build (translator validation failed)", mismatches))
	}

	sort.Strings(knownLines)
	for _, l := range dedup(knownLines) {
		fmt.Println(l)
	}
	if len(violLines) > 0 {
		for _, l := range dedup(violLines) {
			fmt.Println(l)
		}
		exit = 1
	} else if len(inconclusive) > 0 {
		for _, l := range inconclusive {
			fmt.Printf("INCONCLUSIVE property=%s %s\n", p.ID, l)
		}
		exit = 2
	}
	if err := writeEvidence(p, *tier, seed, runs, validated, len(dedup(violLines)), dedup(knownLines), inconclusive, confirmed, time.Since(start).Seconds(), loadS); err != nil {
		fmt.Fprintln(os.Stderr, "ERROR writing evidence:", err)
		return 2
	}
	if exit == 0 {
		fmt.Printf("OK property=%s tier=%s paths=%d validated_witnesses=%d wall=%.1fs\n", p.ID, *tier, totalPaths(runs), validated, time.Since(start).Seconds())
	}
	return exit
}

func violLabels(vs []interp.Violation) string {
	m := map[string]bool{}
	for _, v := range vs {
		m[v.Label] = true
	}
	var ls []string
	for l := range m {
		ls = append(ls, l)
	}
	sort.Strings(ls)
	return strings.Join(ls, ",")
}

func totalPaths(runs []harnessRun) int {
	n := 0
	for _, r := range runs {
		n += r.rep.Paths
	}
	return n
}

func dedup(in []string) []string {
	seen := map[string]bool{}
	var out []string
	for _, s := range in {
		if !seen[s] {
			seen[s] = true
			out = append(out, s)
		}
	}
	return out
}

func def64(v, d int64) int64 {
	if v == 0 {
		return d
	}
	return v
}
func defInt(v, d int) int {
	if v == 0 {
		return d
	}
	return v
}

// ---- native replay ----

type replayCase struct {
	Harness string           `json:"harness"`
	Draws   []interp.DrawVal `json:"draws"`
	Params  map[string]int   `json:"params"`
	// Retries > 0: the outcome depends on a map iteration order that the native
	// build randomises (the harness can only make the wanted order the most
	// likely one): a run that ends "ok" is repeated up to Retries times and the
	// first failing run, if any, is the result. Set for counterexamples only.
	Retries int `json:"retries,omitempty"`
}

type nativeResult struct {
	Idx      int               `json:"idx"`
	Harness  string            `json:"harness"`
	Outcome  string            `json:"outcome"`
	Label    string            `json:"label"`
	KnownID  string            `json:"known_id"`
	Msg      string            `json:"msg"`
	Observes map[string]string `json:"observes"`
	Diverged bool              `json:"diverged"`
}

type replayFile struct {
	Property string       `json:"property"`
	Pkg      string       `json:"pkg"`
	Label    string       `json:"label"`
	Kind     string       `json:"kind"`
	Msg      string       `json:"msg,omitempty"`
	Cases    []replayCase `json:"cases"`
	Decision []int64      `json:"decisions"`
}

func writeReplay(p *PropCfg, h HarnessCfg, c replayCase, v interp.Violation) string {
	dir := filepath.Join(outDir, "replays")
	os.MkdirAll(dir, 0o755)
	rf := replayFile{Property: p.ID, Pkg: h.Pkg, Label: v.Label, Kind: v.Kind, Msg: v.Msg, Cases: []replayCase{c}, Decision: v.Decisions}
	data, _ := json.MarshalIndent(rf, "", " ")
	sum := 0
	for _, b := range data {
		sum = (sum*131 + int(b)) % 1000003
	}
	path := filepath.Join(dir, fmt.Sprintf("%s-%s-%06d.json", p.ID, sanitize(v.Label), sum))
	os.WriteFile(path, data, 0o644)
	return path
}

func sanitize(s string) string {
	var sb strings.Builder
	for _, c := range s {
		if c >= 'a' && c <= 'z' || c >= 'A' && c <= 'Z' || c >= '0' && c <= '9' || c == '-' {
			sb.WriteRune(c)
		} else {
			sb.WriteByte('_')
		}
	}
	return sb.String()
}

// nativeReplay compiles the harness package with the ordinary toolchain (tags
// verif,verif_replay, overlay) and replays the cases against the real build.
func nativeReplay(p *PropCfg, pkg string, cases []replayCase) ([]nativeResult, string, error) {
	tmp, err := os.MkdirTemp("", "symgo-replay-")
	if err != nil {
		return nil, "", err
	}
	defer os.RemoveAll(tmp)
	ovPaths, err := overlayFor(p, true)
	if err != nil {
		return nil, "", err
	}
	// generated test driver
	pkgName, err := packageName(pkg)
	if err != nil {
		return nil, "", err
	}
	var funcs []string
	seen := map[string]bool{}
	for _, h := range p.Harnesses {
		if h.Pkg == pkg && !seen[h.Func] {
			seen[h.Func] = true
			funcs = append(funcs, h.Func)
		}
	}
	var tb bytes.Buffer
	fmt.Fprintf(&tb, "//go:build verif && verif_replay\n\npackage %s\n\nimport (\n\t\"testing\"\n\tzv \"%s/internal/zzverif\"\n)\n\nfunc TestVerifReplay(t *testing.T) {\n\tzv.RunReplay(t, map[string]func(){\n", pkgName, modPath)
	for _, f := range funcs {
		fmt.Fprintf(&tb, "\t\t%q: %s,\n", f, f)
	}
	fmt.Fprintf(&tb, "\t})\n}\n")
	testFile := filepath.Join(tmp, "zz_verif_replay_test.go")
	if err := os.WriteFile(testFile, tb.Bytes(), 0o644); err != nil {
		return nil, "", err
	}
	ovPaths[filepath.Join(repoDir, pkg, "zz_verif_replay_test.go")] = testFile
	ovJSON, _ := json.Marshal(map[string]interface{}{"Replace": ovPaths})
	ovFile := filepath.Join(tmp, "overlay.json")
	os.WriteFile(ovFile, ovJSON, 0o644)
	caseFile := filepath.Join(tmp, "cases.json")
	cdata, _ := json.Marshal(cases)
	os.WriteFile(caseFile, cdata, 0o644)

	cmd := exec.Command("go", "test", "-tags", "verif,verif_replay", "-overlay", ovFile, "-vet=off", "-count=1",
		"-run", "^TestVerifReplay$", "-timeout", "300s", "-v", "./"+pkg)
	cmd.Dir = repoDir
	cmd.Env = append(os.Environ(), "VERIF_REPLAY="+caseFile, "GOFLAGS=-mod=mod", "GOPROXY=off", "GOSUMDB=off", "GOTOOLCHAIN=local",
		"GOCACHE="+goCache())
	restore := guardModFiles()
	out, runErr := cmd.CombinedOutput()
	restore()
	var results []nativeResult
	for _, line := range strings.Split(string(out), "\n") {
		if k := strings.Index(line, "VERIF-RESULT "); k >= 0 {
			var r nativeResult
			if err := json.Unmarshal([]byte(line[k+len("VERIF-RESULT "):]), &r); err == nil {
				results = append(results, r)
			}
		}
	}
	if len(results) < len(cases) {
		// the process may have died on a fatal error (e.g. concurrent map write,
		// deadlock): report the remaining cases as panics with the output tail
		if runErr != nil && len(results) == len(cases)-1 || (runErr != nil && len(cases) == 1) {
			tail := string(out)
			if len(tail) > 600 {
				tail = tail[len(tail)-600:]
			}
			for len(results) < len(cases) {
				results = append(results, nativeResult{Outcome: "panic", Msg: "process died: " + tail})
			}
			return results, string(out), nil
		}
		return results, string(out), fmt.Errorf("native replay returned %d results for %d cases (%v)", len(results), len(cases), runErr)
	}
	return results, string(out), nil
}

// guardModFiles: the go command runs with -mod=mod (offline module cache) and
// could rewrite go.mod/go.sum of the tree under test if a harness imported a
// module that is only an indirect requirement. Checks never modify /repo: the
// files are restored byte for byte if that happens.
func guardModFiles() func() {
	names := []string{"go.mod", "go.sum"}
	orig := map[string][]byte{}
	for _, n := range names {
		if b, err := os.ReadFile(filepath.Join(repoDir, n)); err == nil {
			orig[n] = b
		}
	}
	return func() {
		for n, b := range orig {
			if cur, err := os.ReadFile(filepath.Join(repoDir, n)); err == nil && !bytes.Equal(cur, b) {
				fmt.Fprintf(os.Stderr, "warning: %s was rewritten by the go command; restored\n", n)
				os.WriteFile(filepath.Join(repoDir, n), b, 0o644)
			}
		}
	}
}

func fileExists(p string) bool {
	_, err := os.Stat(p)
	return err == nil
}

func goCache() string {
	if c := os.Getenv("GOCACHE"); c != "" {
		return c
	}
	home, _ := os.UserHomeDir()
	return filepath.Join(home, ".cache", "go-build")
}

func packageName(rel string) (string, error) {
	dir := filepath.Join(repoDir, rel)
	ents, err := os.ReadDir(dir)
	if err != nil {
		return "", err
	}
	for _, e := range ents {
		if strings.HasSuffix(e.Name(), ".go") && !strings.HasSuffix(e.Name(), "_test.go") {
			data, err := os.ReadFile(filepath.Join(dir, e.Name()))
			if err != nil {
				continue
			}
			for _, line := range strings.Split(string(data), "\n") {
				line = strings.TrimSpace(line)
				if strings.HasPrefix(line, "package ") {
					return strings.Fields(line)[1], nil
				}
			}
		}
	}
	return "", fmt.Errorf("no package clause found in %s", dir)
}

func cmdReplay(args []string) int {
	fs := flag.NewFlagSet("replay", flag.ExitOnError)
	propID := fs.String("prop", "", "property id")
	file := fs.String("file", "", "replay file")
	fs.Parse(args)
	p, err := loadProp(*propID)
	if err != nil {
		fmt.Fprintln(os.Stderr, "ERROR:", err)
		return 2
	}
	data, err := os.ReadFile(*file)
	if err != nil {
		fmt.Fprintln(os.Stderr, "ERROR:", err)
		return 2
	}
	var rf replayFile
	if err := json.Unmarshal(data, &rf); err != nil {
		fmt.Fprintln(os.Stderr, "ERROR:", err)
		return 2
	}
	results, out, err := nativeReplay(p, rf.Pkg, rf.Cases)
	if err != nil {
		fmt.Fprintf(os.Stderr, "ERROR: %v\n%s\n", err, out)
		return 2
	}
	code := 0
	for _, r := range results {
		fmt.Printf("replay %s: outcome=%s label=%s known=%s msg=%s observes=%v\n", r.Harness, r.Outcome, r.Label, r.KnownID, r.Msg, r.Observes)
		if r.Outcome == "assert" || r.Outcome == "panic" {
			fmt.Printf("VIOLATION property=%s replay=%s\n", p.ID, *file)
			code = 1
		}
	}
	return code
}
