package interp

// Byte-domain propagation: an exact finite-domain pre-solver for conditions
// that mention a single 8-bit variable.
//
// Parsers branch on one input byte at a time (c == '/', c < '0', table lookups).
// For such a literal the engine evaluates the term for each of the ≤256 values
// the variable may still take under the single-variable literals already on the
// path condition. "No value satisfies it" / "every value satisfies it" are sound
// verdicts whatever else is on the path condition (the domain over-approximates
// the feasible set); "both feasible" is exact as long as the variable occurs in
// no literal that mentions another variable (the feasible set is then the product
// of that variable's domain with the rest), otherwise the SMT solver decides. A sample of the domain
// verdicts is audited against the solver (Config.DomainAudit).

import (
	"symgo/smt"
)

type byteDom [4]uint64

func fullDom() *byteDom { return &byteDom{^uint64(0), ^uint64(0), ^uint64(0), ^uint64(0)} }

func (d *byteDom) has(v int) bool { return d[v>>6]&(1<<uint(v&63)) != 0 }
func (d *byteDom) clear(v int)    { d[v>>6] &^= 1 << uint(v&63) }
func (d *byteDom) empty() bool    { return d[0]|d[1]|d[2]|d[3] == 0 }

// singleVar returns the only variable of t if t mentions exactly one variable
// and that variable is 8 bits wide.
func (i *interpreter) singleVar(t *smt.Term) *smt.Term {
	if v, ok := i.varMemo[t.ID]; ok {
		if v == manyVars || v == nil || v.Sort != 8 {
			return nil // (the memo records the variable whatever its width; only bytes have a domain)
		}
		return v
	}
	var found *smt.Term
	many := false
	seen := map[int]bool{}
	var walk func(t *smt.Term)
	walk = func(t *smt.Term) {
		if many || seen[t.ID] {
			return
		}
		seen[t.ID] = true
		if m, ok := i.varMemo[t.ID]; ok {
			switch {
			case m == manyVars:
				many = true
			case m != nil:
				if found != nil && found != m {
					many = true
				}
				found = m
			}
			return
		}
		if t.Op == smt.OpVar {
			if found != nil && found != t {
				many = true
			}
			found = t
			return
		}
		for _, a := range t.Args {
			walk(a)
		}
	}
	walk(t)
	switch {
	case many:
		i.varMemo[t.ID] = manyVars
		return nil
	case found == nil:
		i.varMemo[t.ID] = nil
		return nil
	}
	i.varMemo[t.ID] = found
	if found.Sort != 8 {
		return nil
	}
	return found
}

var manyVars = &smt.Term{}

// split partitions the domain of v by the truth of c.
func (i *interpreter) domSplit(c, v *smt.Term) (nTrue, nFalse int) {
	d := i.p.dom[v]
	env := map[string]uint64{}
	for x := 0; x < 256; x++ {
		if d != nil && !d.has(x) {
			continue
		}
		env[v.Name] = uint64(x)
		if i.tb.Eval(c, env) != 0 {
			nTrue++
		} else {
			nFalse++
		}
	}
	return
}

// domAssert refines the domain with an asserted literal (or notes that the
// path condition is no longer a product of single-variable constraints).
func (i *interpreter) domAssert(lit *smt.Term) {
	p := i.p
	v := i.singleVar(lit)
	if v == nil {
		// a literal over several variables (or a wider one) entangles them: their
		// domains are no longer exact projections of the feasible set
		for _, x := range i.termVars(lit) {
			p.entangled[x] = true
		}
		return
	}
	d := p.dom[v]
	if d == nil {
		d = fullDom()
		p.dom[v] = d
	}
	env := map[string]uint64{}
	for x := 0; x < 256; x++ {
		if !d.has(x) {
			continue
		}
		env[v.Name] = uint64(x)
		if i.tb.Eval(lit, env) == 0 {
			d.clear(x)
		}
	}
}

// domDecide tries to decide condition c from the byte domains.
// verdict: 0 = undecided (ask the solver), 1 = only true, 2 = only false, 3 = both feasible.
func (i *interpreter) domDecide(c *smt.Term) int {
	if !i.cfg.ByteDomains {
		return 0
	}
	v := i.singleVar(c)
	if v == nil {
		return 0
	}
	nT, nF := i.domSplit(c, v)
	switch {
	case nT == 0 && nF == 0:
		return 0
	case nT == 0:
		return 2
	case nF == 0:
		return 1
	case !i.p.entangled[v]:
		return 3
	}
	return 0
}

// termVars lists the variables of t.
func (i *interpreter) termVars(t *smt.Term) []*smt.Term {
	var vs []*smt.Term
	seen := map[int]bool{}
	var walk func(t *smt.Term)
	walk = func(t *smt.Term) {
		if seen[t.ID] {
			return
		}
		seen[t.ID] = true
		if t.Op == smt.OpVar {
			vs = append(vs, t)
			return
		}
		for _, a := range t.Args {
			walk(a)
		}
	}
	walk(t)
	return vs
}
