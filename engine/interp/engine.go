package interp

// Path state, decisions, solver interaction and the per-path driver.

import (
	"fmt"
	"go/token"
	"go/types"
	"os"
	"runtime"
	"sort"
	"strings"

	"golang.org/x/tools/go/ssa"
	"symgo/smt"
)

// Draw is one nondeterministic input drawn by the harness (in order).
type Draw struct {
	Kind string    // byte | bool | int64 | choose
	Name string    // harness-given name
	Term *smt.Term // nil for concrete draws (choose)
	Val  int64     // value for concrete draws
	N    int       // choose: number of alternatives
}

// DrawVal is a Draw with the value a model (or the decision) assigns to it.
type DrawVal struct {
	Kind string `json:"kind"`
	Name string `json:"name"`
	Val  int64  `json:"val"`
}

type Violation struct {
	Label     string    `json:"label"`
	Kind      string    `json:"kind"` // assert | panic
	KnownID   string    `json:"known_id,omitempty"`
	Msg       string    `json:"msg,omitempty"`
	Draws     []DrawVal `json:"draws"`
	Decisions []int64   `json:"decisions"`
}

type Observation struct {
	Name string
	Val  value
}

type Witness struct {
	Draws    []DrawVal         `json:"draws"`
	Observes map[string]string `json:"observes"`
	Outcome  string            `json:"outcome"`
}

type PathResult struct {
	Status        string // ok | panic | infeasible | bound | unsupported | deadlock | assume
	Msg           string
	Decisions     []int64
	NewWork       [][]int64
	Steps         int64
	Violations    []Violation
	Known         []Violation
	Discharged    int // assertion obligations proven (unsat)
	Trivial       int // assertion obligations true on a concrete condition
	UnknownQ      int // assertion queries that came back unknown
	Reach         []string
	Witness       *Witness
	NDraws        int
	Infeasible    int // decision alternatives proven infeasible
	DomainDecided int // decisions settled by byte-domain propagation
	DomainAudited int // of those, re-decided by the solver (agreeing)
}

type pathState struct {
	prefix    []int64
	decisions []int64
	pc        []*smt.Term
	pcset     map[int]bool
	newWork   [][]int64
	draws     []Draw
	steps     int64
	reach     map[string]bool
	observes  []Observation
	res       *PathResult
	// shared-write monitor
	shared     map[*value]bool
	sharedMaps map[*omap]bool
	monitorOn  bool
	cached     map[*value]bool
	cachedMaps map[*omap]bool
	stubs      map[string]value
	panicLoc   string
	panicNoted bool
	dom        map[*smt.Term]*byteDom
	entangled  map[*smt.Term]bool
}

func (p *pathState) prefixCopyWith(v int64) []int64 {
	w := make([]int64, len(p.decisions)+1)
	copy(w, p.decisions)
	w[len(p.decisions)] = v
	return w
}

// assertPC adds a literal to the path condition.
func (i *interpreter) assertPC(t *smt.Term) {
	if t.IsTrue() {
		return
	}
	p := i.p
	p.pc = append(p.pc, t)
	i.noteLits(t)
	if i.cfg.ByteDomains {
		i.domAssert(t)
	}
	i.sess.Assert(t)
}

func (i *interpreter) noteLits(t *smt.Term) {
	p := i.p
	if p.pcset[t.ID] {
		return
	}
	p.pcset[t.ID] = true
	switch t.Op {
	case smt.OpAnd:
		i.noteLits(t.Args[0])
		i.noteLits(t.Args[1])
	case smt.OpNot:
		if in := t.Args[0]; in.Op == smt.OpOr {
			i.noteLits(i.tb.Not(in.Args[0]))
			i.noteLits(i.tb.Not(in.Args[1]))
		}
	}
}

// known reports whether the literal is syntactically decided by the PC.
func (i *interpreter) knownLit(c *smt.Term) (val, ok bool) {
	if i.p.pcset[c.ID] {
		return true, true
	}
	if i.p.pcset[i.tb.Not(c).ID] {
		return false, true
	}
	return false, false
}

func (i *interpreter) checkBudget() {
	if len(i.p.decisions) >= i.cfg.MaxDecisions {
		panic(abortPath{"bound", "decision budget exceeded"})
	}
}

// decideBool makes a two-way decision on a symbolic condition.
func (i *interpreter) decideBool(c *smt.Term) bool {
	if dbgDecisions && len(i.p.decisions) <= 5 {
		_, kn := i.knownLit(c)
		debugf("[db %v prefix=%v] %s const=%v known=%v\n", i.p.decisions, i.p.prefix, c.String(), c.IsConst(), kn)
	}
	if c.IsConst() {
		return c.Val == 1
	}
	if v, ok := i.knownLit(c); ok {
		return v
	}
	p := i.p
	d := len(p.decisions)
	var choice bool
	if d < len(p.prefix) {
		choice = p.prefix[d] == 1
	} else {
		i.checkBudget()
		dv := i.domDecide(c)
		if dv != 0 {
			p.res.DomainDecided++
			if i.cfg.DomainAudit > 0 && (p.res.DomainDecided+len(p.decisions))%i.cfg.DomainAudit == 0 {
				i.auditDomain(c, dv)
			}
		}
		switch dv {
		case 1:
			p.res.Infeasible++
			choice = true
		case 2:
			p.res.Infeasible++
			choice = false
		case 3:
			choice = true
			p.newWork = append(p.newWork, p.prefixCopyWith(0))
		}
		if dv == 0 && i.cfg.Verbose && dbgCount < 60 {
			dbgCount++
			debugf("[solver-decision] vars=%d %s\n", len(i.termVars(c)), c.String())
		}
		if dv != 0 {
			// decided without the solver
		} else if rT, _ := i.sess.Check([]*smt.Term{c}, nil); rT == smt.Unsat {
			if dbgDecisions {
				debugf("[dec %v] %s: true infeasible\n", p.decisions, c.String())
			}
			p.res.Infeasible++
			choice = false
		} else {
			rF, _ := i.sess.Check([]*smt.Term{i.tb.Not(c)}, nil)
			if dbgDecisions {
				debugf("[dec %v] %s: true=%v false=%v pc=%d\n", p.decisions, c.String(), rT, rF, len(p.pc))
			}
			if rF == smt.Unsat {
				p.res.Infeasible++
				choice = true
			} else {
				choice = true
				p.newWork = append(p.newWork, p.prefixCopyWith(0))
			}
		}
	}
	if choice {
		p.decisions = append(p.decisions, 1)
		i.assertPC(c)
	} else {
		p.decisions = append(p.decisions, 0)
		i.assertPC(i.tb.Not(c))
	}
	return choice
}

// auditDomain re-decides a byte-domain verdict with the SMT solver.
func (i *interpreter) auditDomain(c *smt.Term, dv int) {
	rT, _ := i.sess.Check([]*smt.Term{c}, nil)
	rF, _ := i.sess.Check([]*smt.Term{i.tb.Not(c)}, nil)
	i.p.res.DomainAudited++
	ok := true
	switch dv {
	case 1:
		ok = rF != smt.Sat && rT != smt.Unsat
	case 2:
		ok = rT != smt.Sat && rF != smt.Unsat
	case 3:
		ok = rT != smt.Unsat && rF != smt.Unsat
	}
	if !ok {
		panic(abortPath{"unsupported", "byte-domain verdict disagrees with the solver on " + c.String()})
	}
}

// truth returns the truth value of a bool-valued value, deciding if symbolic.
func (i *interpreter) truth(v value) bool {
	switch v := v.(type) {
	case bool:
		return v
	case sym:
		return i.decideBool(v.t)
	}
	panic(fmt.Sprintf("truth: %T", v))
}

// choose makes an n-way unconstrained decision (harness Choose, schedulers).
func (i *interpreter) choose(n int) int {
	if n <= 1 {
		return 0
	}
	p := i.p
	d := len(p.decisions)
	var c int64
	if d < len(p.prefix) {
		c = p.prefix[d]
	} else {
		i.checkBudget()
		for k := 1; k < n; k++ {
			p.newWork = append(p.newWork, p.prefixCopyWith(int64(k)))
		}
		c = 0
	}
	p.decisions = append(p.decisions, c)
	return int(c)
}

func signExtendKind(k types.BasicKind, bits uint64) int64 {
	switch kindWidth(k) {
	case 8:
		if kindSigned(k) {
			return int64(int8(bits))
		}
		return int64(uint8(bits))
	case 16:
		if kindSigned(k) {
			return int64(int16(bits))
		}
		return int64(uint16(bits))
	case 32:
		if kindSigned(k) {
			return int64(int32(bits))
		}
		return int64(uint32(bits))
	}
	return int64(bits)
}

// concretize forks over the feasible values of a symbolic integer.
func (i *interpreter) concretize(s sym) int64 {
	if s.t.IsConst() {
		return signExtendKind(s.k, s.t.Val)
	}
	p := i.p
	tb := i.tb
	d := len(p.decisions)
	var v int64
	if d < len(p.prefix) {
		v = p.prefix[d]
	} else {
		i.checkBudget()
		var vals []int64
		var block []*smt.Term
		for {
			r, m := i.sess.Check(block, []*smt.Term{s.t})
			if r == smt.Unsat {
				break
			}
			if r == smt.Unknown {
				panic(abortPath{"unsupported", "concretize: solver unknown: " + i.sess.LastErr})
			}
			bitsv, ok := m[termRef(s.t)]
			if !ok {
				panic(abortPath{"unsupported", "concretize: no model value"})
			}
			vals = append(vals, signExtendKind(s.k, bitsv))
			block = append(block, tb.Not(tb.Eq(s.t, tb.BV(bitsv, s.t.Sort))))
			if len(vals) > i.cfg.MaxConcretize {
				panic(abortPath{"bound", fmt.Sprintf("concretize: more than %d feasible values", i.cfg.MaxConcretize)})
			}
		}
		if len(vals) == 0 {
			panic(abortPath{"infeasible", "concretize: no feasible value"})
		}
		sort.Slice(vals, func(a, b int) bool { return vals[a] < vals[b] })
		v = vals[0]
		for _, o := range vals[1:] {
			p.newWork = append(p.newWork, p.prefixCopyWith(o))
		}
	}
	p.decisions = append(p.decisions, v)
	i.assertPC(tb.Eq(s.t, tb.BV(uint64(v), s.t.Sort)))
	return v
}

func termRef(t *smt.Term) string {
	if t.Op == smt.OpVar {
		return t.Name
	}
	return fmt.Sprintf("t%d", t.ID)
}

// truthIf evaluates the condition of an If.
func (i *interpreter) truthIf(fr *frame, instr *ssa.If, c value) bool {
	if b, ok := c.(bool); ok {
		return b
	}
	return i.decideBool(c.(sym).t)
}

// idx64 widens a symbolic index to 64 bits respecting its signedness.
func (i *interpreter) idx64(s sym) *smt.Term {
	if kindSigned(s.k) {
		return i.tb.Sext(s.t, 64)
	}
	return i.tb.Zext(s.t, 64)
}

func isScalar(v value) bool {
	switch v.(type) {
	case sym, ftab, fmono, bool, int, int8, int16, int32, int64, uint, uint8, uint16, uint32, uint64, uintptr, float32, float64:
		return true
	}
	return false
}

func isNilVal(v value) bool {
	switch x := v.(type) {
	case nil:
		return true
	case []value:
		return x == nil
	case *value:
		return x == nil
	case iface:
		return x.t == nil
	}
	return false
}

// symIndex returns elems[idx] for a symbolic idx: bounds are a decision, the
// element is an ite-chain over runs of equal elements (scalars) or obtained by
// concretising the index (other element types).
func (i *interpreter) symIndex(fr *frame, elems []value, idx sym) value {
	tb := i.tb
	ix := i.idx64(idx)
	inRange := tb.BvUlt(ix, tb.BV(uint64(len(elems)), 64))
	if !i.decideBool(inRange) {
		panic(i.rtPanic(fmt.Sprintf("index out of range [symbolic] with length %d", len(elems))))
	}
	allScalar := true
	for _, e := range elems {
		if !isScalar(e) {
			allScalar = false
			break
		}
	}
	if !allScalar && len(elems) > 0 {
		// sparse tables of aggregates (e.g. strings.byteStringReplacer's
		// [256][]byte): one decision per non-nil entry, one class for the rest
		var specials []int
		rest := -1
		for j, e := range elems {
			if isNilVal(e) {
				if rest < 0 {
					rest = j
				}
			} else {
				specials = append(specials, j)
			}
		}
		if rest >= 0 && len(specials) <= 16 {
			for _, j := range specials {
				if i.decideBool(tb.Eq(ix, tb.BV(uint64(j), 64))) {
					return copyVal(elems[j])
				}
			}
			return copyVal(elems[rest])
		}
	}
	if !allScalar || len(elems) == 0 {
		k := i.concretize(sym{types.Int64, ix})
		return copyVal(elems[k])
	}
	k := kindOf(elems[0])
	// an index that is a function of one input byte can only hit ≤256 slots:
	// select among those instead of the whole (possibly huge) table — used when
	// the table has many distinct runs (denco's double array), not for small
	// classification tables whose run-wise ite-chain is shorter
	tryCand := func() (value, bool) {
		v := i.singleVar(ix)
		if v == nil {
			return nil, false
		}
		d := i.p.dom[v]
		env := map[string]uint64{}
		seen := map[uint64]bool{}
		var cand []uint64
		for x := 0; x < 256; x++ {
			if d != nil && !d.has(x) {
				continue
			}
			env[v.Name] = uint64(x)
			if kx := tb.Eval(ix, env); kx < uint64(len(elems)) && !seen[kx] {
				seen[kx] = true
				cand = append(cand, kx)
			}
		}
		if len(cand) == 0 {
			return nil, false
		}
		sort.Slice(cand, func(a, b int) bool { return cand[a] < cand[b] })
		res := i.termOf(elems[cand[len(cand)-1]])
		for r := len(cand) - 2; r >= 0; r-- {
			res = tb.Ite(tb.Eq(ix, tb.BV(cand[r], 64)), i.termOf(elems[cand[r]]), res)
		}
		return i.mkVal(k, res), true
	}
	if len(elems) > 4096 {
		if v, ok := tryCand(); ok {
			return v
		}
	}
	type run struct {
		lo, hi int
		t      *smt.Term
	}
	var runs []run
	for j, e := range elems {
		t := i.termOf(e)
		if n := len(runs); n > 0 && runs[n-1].t == t {
			runs[n-1].hi = j
		} else {
			runs = append(runs, run{j, j, t})
		}
	}
	if len(runs) > 64 {
		if v, ok := tryCand(); ok {
			return v
		}
	}
	res := runs[len(runs)-1].t
	for r := len(runs) - 2; r >= 0; r-- {
		var cond *smt.Term
		if runs[r].lo == runs[r].hi {
			cond = tb.Eq(ix, tb.BV(uint64(runs[r].lo), 64))
		} else if runs[r].lo == 0 {
			cond = tb.BvUle(ix, tb.BV(uint64(runs[r].hi), 64))
		} else {
			cond = tb.And(tb.BvUle(tb.BV(uint64(runs[r].lo), 64), ix), tb.BvUle(ix, tb.BV(uint64(runs[r].hi), 64)))
		}
		res = tb.Ite(cond, runs[r].t, res)
	}
	return i.mkVal(k, res)
}

func (i *interpreter) symIndexAddr(fr *frame, instr *ssa.IndexAddr, elems []value, idx sym) value {
	onlyLoads := true
	if refs := instr.Referrers(); refs != nil {
		for _, r := range *refs {
			u, ok := r.(*ssa.UnOp)
			if !ok || u.Op != token.MUL {
				onlyLoads = false
				break
			}
		}
	}
	if onlyLoads {
		v := i.symIndex(fr, elems, idx)
		return &v
	}
	tb := i.tb
	ix := i.idx64(idx)
	inRange := tb.BvUlt(ix, tb.BV(uint64(len(elems)), 64))
	if !i.decideBool(inRange) {
		panic(i.rtPanic(fmt.Sprintf("index out of range [symbolic] with length %d", len(elems))))
	}
	k := i.concretize(sym{types.Int64, ix})
	return &elems[k]
}

// mapOrder returns the entries of m in the iteration order chosen for this
// range statement (insertion order unless map-order exploration applies).
func (i *interpreter) mapOrder(fr *frame, m *omap) []*mentry {
	var live []*mentry
	for _, e := range m.entries {
		if !e.deleted {
			live = append(live, e)
		}
	}
	if !i.cfg.MapOrders || len(live) < 2 || fr.fn.Pkg == nil || !i.isVolatile(fr.fn.Pkg) {
		return live
	}
	if strings.Contains(fr.fn.Pkg.Pkg.Path(), "zzverif") {
		return live
	}
	n := len(live)
	if n <= 3 {
		perms := permutations(n)
		c := i.choose(len(perms))
		out := make([]*mentry, n)
		for k, j := range perms[c] {
			out[k] = live[j]
		}
		return out
	}
	// rotations and reversal
	c := i.choose(n + 1)
	out := make([]*mentry, n)
	if c == n {
		for k := range live {
			out[k] = live[n-1-k]
		}
		return out
	}
	for k := range live {
		out[k] = live[(k+c)%n]
	}
	return out
}

func permutations(n int) [][]int {
	var res [][]int
	var rec func(cur []int, used []bool)
	rec = func(cur []int, used []bool) {
		if len(cur) == n {
			res = append(res, append([]int(nil), cur...))
			return
		}
		for k := 0; k < n; k++ {
			if !used[k] {
				used[k] = true
				rec(append(cur, k), used)
				used[k] = false
			}
		}
	}
	rec(nil, make([]bool, n))
	return res
}

// ---- model / draws ----

func (i *interpreter) drawTerms() []*smt.Term {
	var ts []*smt.Term
	for _, d := range i.p.draws {
		if d.Term != nil {
			ts = append(ts, d.Term)
		}
	}
	return ts
}

func (i *interpreter) drawVals(model map[string]uint64) []DrawVal {
	out := make([]DrawVal, len(i.p.draws))
	for k, d := range i.p.draws {
		dv := DrawVal{Kind: d.Kind, Name: d.Name, Val: d.Val}
		if d.Term != nil {
			bitsv := model[d.Term.Name]
			switch d.Kind {
			case "int64":
				dv.Val = int64(bitsv)
			default:
				dv.Val = int64(bitsv)
			}
		}
		out[k] = dv
	}
	return out
}

// modelOf asks the solver for a model of PC ∧ extras over the draw variables.
func (i *interpreter) modelOf(extras []*smt.Term) (smt.Result, map[string]uint64) {
	ts := i.drawTerms()
	if len(ts) == 0 {
		r, _ := i.sess.Check(extras, nil)
		return r, map[string]uint64{}
	}
	return i.sess.Check(extras, ts)
}

func (i *interpreter) recordViolation(label, kind, msg, knownID string, model map[string]uint64) {
	v := Violation{Label: label, Kind: kind, Msg: msg, KnownID: knownID,
		Draws: i.drawVals(model), Decisions: append([]int64(nil), i.p.decisions...)}
	if knownID != "" {
		i.p.res.Known = append(i.p.res.Known, v)
	} else {
		i.p.res.Violations = append(i.p.res.Violations, v)
	}
}

// assertCond implements zzverif.Assert / AssertExcept.
func (i *interpreter) assertCond(label string, cond value, known value, knownID string) {
	tb := i.tb
	res := i.p.res
	var c *smt.Term
	switch cv := cond.(type) {
	case bool:
		c = tb.BoolConst(cv)
	case sym:
		c = cv.t
	}
	if c.IsTrue() {
		res.Trivial++
		return
	}
	if v, ok := i.knownLit(c); ok && v {
		res.Trivial++
		return
	}
	notC := tb.Not(c)
	if knownID == "" {
		r, m := i.modelOf([]*smt.Term{notC})
		switch r {
		case smt.Unsat:
			res.Discharged++
		case smt.Sat:
			i.recordViolation(label, "assert", "", "", m)
		default:
			res.UnknownQ++
		}
	} else {
		var k *smt.Term
		switch kv := known.(type) {
		case bool:
			k = tb.BoolConst(kv)
		case sym:
			k = kv.t
		}
		r1, m1 := i.modelOf([]*smt.Term{notC, tb.Not(k)})
		switch r1 {
		case smt.Sat:
			i.recordViolation(label, "assert", "", "", m1)
		case smt.Unknown:
			res.UnknownQ++
		}
		r2, m2 := i.modelOf([]*smt.Term{notC, k})
		switch r2 {
		case smt.Sat:
			i.recordViolation(label, "assert", "", knownID, m2)
		case smt.Unknown:
			res.UnknownQ++
		}
		if r1 == smt.Unsat && r2 == smt.Unsat {
			res.Discharged++
		}
	}
	// continue the path under the asserted condition
	if !c.IsConst() {
		r, _ := i.sess.Check([]*smt.Term{c}, nil)
		if r == smt.Unsat {
			panic(abortPath{"done", "assertion fails on every input of this path"})
		}
		i.assertPC(c)
	} else if c.IsFalse() {
		panic(abortPath{"done", "assertion fails on every input of this path"})
	}
}

// assume implements zzverif.Assume.
func (i *interpreter) assume(cond value) {
	switch cv := cond.(type) {
	case bool:
		if !cv {
			panic(abortPath{"assume", "assumption false"})
		}
	case sym:
		if v, ok := i.knownLit(cv.t); ok {
			if !v {
				panic(abortPath{"assume", "assumption false"})
			}
			return
		}
		r, _ := i.sess.Check([]*smt.Term{cv.t}, nil)
		if r == smt.Unsat {
			panic(abortPath{"assume", "assumption infeasible"})
		}
		i.assertPC(cv.t)
	}
}

func (i *interpreter) newDraw(kind, name string, k types.BasicKind) value {
	p := i.p
	idx := len(p.draws)
	t := i.tb.Var(fmt.Sprintf("d%d_%s", idx, sanitize(name)), kindWidth(k))
	p.draws = append(p.draws, Draw{Kind: kind, Name: name, Term: t})
	return sym{k, t}
}

func sanitize(s string) string {
	var sb strings.Builder
	for _, c := range s {
		if c >= 'a' && c <= 'z' || c >= 'A' && c <= 'Z' || c >= '0' && c <= '9' {
			sb.WriteRune(c)
		} else {
			sb.WriteByte('_')
		}
	}
	return sb.String()
}

// canon renders an observed value canonically under a model.
func (i *interpreter) canon(v value, model map[string]uint64) string {
	switch v := v.(type) {
	case nil:
		return "nil"
	case bool:
		return fmt.Sprint(v)
	case string:
		return fmt.Sprintf("%q", v)
	case sym:
		bitsv := i.tb.Eval(v.t, model)
		if v.k == types.Bool {
			return fmt.Sprint(bitsv != 0)
		}
		return i.canon(fromBits(v.k, uint64(signExtendKind(v.k, bitsv))), model)
	case fmono:
		n := i.tb.Eval(v.x, model)
		w := uint(kindWidth(v.xk))
		idx := n
		if kindSigned(v.xk) {
			idx = n ^ (uint64(1) << (w - 1))
		}
		return fmt.Sprint(v.eval(idx))
	case ftab:
		kv := i.tb.Eval(v.key, model)
		for j, kk := range v.keys {
			if kk == kv {
				return fmt.Sprint(v.vals[j])
			}
		}
		return "<ftab?>"
	case symstr:
		b := make([]byte, len(v))
		for k, e := range v {
			switch e := e.(type) {
			case byte:
				b[k] = e
			case sym:
				b[k] = byte(i.tb.Eval(e.t, model))
			}
		}
		return fmt.Sprintf("%q", string(b))
	case int, int8, int16, int32, int64:
		return fmt.Sprint(asInt64c(v))
	case uint, uint8, uint16, uint32, uint64, uintptr:
		return fmt.Sprint(uint64(asInt64c(v)))
	case float32, float64:
		return fmt.Sprint(v)
	case iface:
		if v.t == nil {
			return "nil"
		}
		if types.Identical(v.t.Underlying(), types.Typ[types.String]) || isBasicType(v.t) {
			return i.canon(v.v, model)
		}
		if sl, ok := v.t.Underlying().(*types.Slice); ok {
			if b, ok := sl.Elem().Underlying().(*types.Basic); ok && b.Kind() == types.Uint8 {
				return i.canon(bytesToStr(v.v.([]value)), model)
			}
			return i.canon(v.v, model)
		}
		return "<" + v.t.String() + ">"
	case []value:
		parts := make([]string, len(v))
		for k, e := range v {
			parts[k] = i.canon(e, model)
		}
		return "[" + strings.Join(parts, ",") + "]"
	}
	return fmt.Sprintf("<%T>", v)
}

func isBasicType(t types.Type) bool {
	_, ok := t.Underlying().(*types.Basic)
	return ok
}

// RunPath executes the harness along the decision prefix and beyond.
func (i *interpreter) RunPath(fn *ssa.Function, prefix []int64, wantWitness bool) (res *PathResult) {
	if i.tb.Size() > 400000 {
		i.tb = smt.NewTable()
		i.varMemo = map[int]*smt.Term{}
		i.tabCache = map[string][]uint64{}
		i.sess.Close()
		sess, err := smt.NewSession(i.tb, i.cfg.SolverArgv, i.cfg.QueryTimeoutMs)
		if err != nil {
			return &PathResult{Status: "unsupported", Msg: "solver restart: " + err.Error()}
		}
		sess.Stats = i.sess.Stats
		i.sess = sess
	} else {
		i.sess.Reset()
	}
	i.resetVolatile()
	res = &PathResult{}
	i.p = &pathState{prefix: prefix, pcset: map[int]bool{}, reach: map[string]bool{}, res: res, dom: map[*smt.Term]*byteDom{}, entangled: map[*smt.Term]bool{}}
	i.depth = 0
	i.sched = newScheduler(i)
	defer func() {
		p := i.p
		res.Decisions = p.decisions
		res.NewWork = p.newWork
		res.Steps = p.steps
		res.NDraws = len(p.draws)
		for l := range p.reach {
			res.Reach = append(res.Reach, l)
		}
		sort.Strings(res.Reach)
		i.sched.killAll()
		if r := recover(); r != nil {
			switch r := r.(type) {
			case abortPath:
				switch r.kind {
				case "done":
					res.Status = "ok"
				default:
					res.Status = r.kind
				}
				res.Msg = r.msg
			case targetPanic:
				res.Status = "panic"
				res.Msg = i.panicString(r) + " [raised in " + p.panicLoc + "]"
				_, m := i.modelOf(nil)
				i.recordViolation("no-uncaught-panic", "panic", res.Msg, "", m)
			default:
				res.Status = "unsupported"
				buf := make([]byte, 4096)
				buf = buf[:runtime.Stack(buf, false)]
				res.Msg = fmt.Sprintf("interpreter crash: %v\n%s", r, buf)
			}
			return
		}
		res.Status = "ok"
		if wantWitness {
			r, m := i.modelOf(nil)
			if r == smt.Sat {
				w := &Witness{Draws: i.drawVals(m), Observes: map[string]string{}, Outcome: "ok"}
				for _, o := range p.observes {
					w.Observes[o.Name] = i.canon(o.Val, m)
				}
				res.Witness = w
			}
		}
	}()
	i.sched.runMain(func() {
		call(i, nil, token.NoPos, fn, nil)
	})
	return res
}

func (i *interpreter) panicString(p targetPanic) string {
	defer func() { recover() }()
	switch v := p.v.(type) {
	case iface:
		if v.t == nil {
			return "nil"
		}
		switch vv := v.v.(type) {
		case string:
			return fmt.Sprintf("%s: %s", v.t, vv)
		case symstr:
			return fmt.Sprintf("%s: %s", v.t, toString(vv))
		}
		return fmt.Sprintf("%s: %s", v.t, toString(v.v))
	}
	return toString(p.v)
}

var dbgCount int
var dbgDecisions = os.Getenv("SYMGO_DBGDEC") != ""

func debugf(format string, args ...interface{}) {
	fmt.Fprintf(os.Stderr, format, args...)
}
