package interp

// Decision-replay DFS over all feasible paths of a harness, on N workers.

import (
	"fmt"
	"os"
	"sort"
	"strings"
	"sync"
	"time"

	"golang.org/x/tools/go/ssa"
)

type Options struct {
	Workers      int
	MaxPaths     int
	WitnessEvery int // sample every n-th completed path as a witness (0 = none)
	MaxWitnesses int
	TimeLimit    time.Duration
	Progress     bool
}

type Sample struct {
	Decisions []int64   `json:"decisions"`
	Inputs    []DrawVal `json:"inputs,omitempty"`
	Status    string    `json:"status"`
	Reach     []string  `json:"reach,omitempty"`
	Steps     int64     `json:"steps"`
}

type Report struct {
	Harness       string
	Paths         int            // completed executions
	ByStatus      map[string]int // ok | panic | infeasible | bound | unsupported | deadlock | assume
	Decisions     int64
	Steps         int64
	Infeasible    int
	DomainDecided int
	DomainAudited int
	Discharged    int
	Trivial       int
	UnknownQ      int
	Violations    []Violation
	Known         []Violation
	KnownCount    map[string]int
	Reach         map[string]int
	Witnesses     []*Witness
	Samples       []Sample
	Faults        []string // unsupported / bound / deadlock messages (deduplicated)
	Queries       struct{ Sat, Unsat, Unknown, Errors, Total int }
	SolverTime    time.Duration
	Wall          time.Duration
	Functions     map[string]int // function -> calls (union over workers)
	Stubbed       []string       // functions replaced by harness stubs
	Complete      bool           // work list exhausted within limits
	MaxDepth      int
	Cross         *CrossCheck // second exploration with another solver (thorough tiers)
}

type CrossCheck struct {
	Solver     string `json:"solver"`
	Paths      int    `json:"paths"`
	Discharged int    `json:"discharged_unsat"`
	Queries    int    `json:"queries"`
	Agree      bool   `json:"agree"`
}

// Explore runs harness fn to exhaustion (within opt limits).
func Explore(prog *ssa.Program, fn *ssa.Function, cfg *Config, opt Options) (*Report, error) {
	rep := &Report{Harness: fn.String(), ByStatus: map[string]int{}, KnownCount: map[string]int{},
		Reach: map[string]int{}, Functions: map[string]int{}}
	start := time.Now()
	var mu sync.Mutex
	cond := sync.NewCond(&mu)
	work := [][]int64{{}}
	if pf := os.Getenv("SYMGO_PREFIX"); pf != "" { // debugging aid: explore below one decision prefix only
		var pre []int64
		for _, f := range strings.Fields(pf) {
			var v int64
			fmt.Sscan(f, &v)
			pre = append(pre, v)
		}
		work = [][]int64{pre}
	}
	active := 0
	stop := false
	faultSeen := map[string]bool{}
	violSeen := map[string]int{}

	var dumpF *os.File
	if f := os.Getenv("SYMGO_DUMP"); f != "" { // debugging aid: one line per completed path
		dumpF, _ = os.Create(f)
		defer dumpF.Close()
	}
	workers := make([]*interpreter, opt.Workers)
	for w := range workers {
		in, err := newInterpreter(prog, cfg)
		if err != nil {
			return nil, err
		}
		workers[w] = in
	}
	var wg sync.WaitGroup
	for w := range workers {
		wg.Add(1)
		go func(in *interpreter) {
			defer wg.Done()
			for {
				mu.Lock()
				for len(work) == 0 && active > 0 && !stop {
					cond.Wait()
				}
				if stop || (len(work) == 0 && active == 0) {
					mu.Unlock()
					cond.Broadcast()
					return
				}
				item := work[len(work)-1]
				work = work[:len(work)-1]
				active++
				npaths := rep.Paths + active
				wantW := opt.WitnessEvery > 0 && len(rep.Witnesses) < opt.MaxWitnesses && npaths%opt.WitnessEvery == 0
				mu.Unlock()

				res := in.RunPath(fn, item, wantW)

				mu.Lock()
				if dumpF != nil {
					fmt.Fprintf(dumpF, "%v %s\n", res.Decisions, res.Status)
				}
				active--
				rep.Paths++
				rep.ByStatus[res.Status]++
				rep.Decisions += int64(len(res.Decisions))
				if len(res.Decisions) > rep.MaxDepth {
					rep.MaxDepth = len(res.Decisions)
				}
				rep.Steps += res.Steps
				rep.Infeasible += res.Infeasible
				rep.DomainDecided += res.DomainDecided
				rep.DomainAudited += res.DomainAudited
				rep.Discharged += res.Discharged
				rep.Trivial += res.Trivial
				rep.UnknownQ += res.UnknownQ
				for _, l := range res.Reach {
					rep.Reach[l]++
				}
				for _, v := range res.Violations {
					key := v.Label + "|" + v.Kind
					violSeen[key]++
					if violSeen[key] <= 3 {
						rep.Violations = append(rep.Violations, v)
					}
				}
				for _, v := range res.Known {
					rep.KnownCount[v.KnownID]++
					if rep.KnownCount[v.KnownID] <= 2 {
						rep.Known = append(rep.Known, v)
					}
				}
				switch res.Status {
				case "bound", "unsupported", "deadlock":
					if !faultSeen[res.Status+res.Msg] && len(rep.Faults) < 20 {
						faultSeen[res.Status+res.Msg] = true
						rep.Faults = append(rep.Faults, fmt.Sprintf("%s: %s (decisions %v)", res.Status, res.Msg, res.Decisions))
					}
				}
				if res.Witness != nil {
					rep.Witnesses = append(rep.Witnesses, res.Witness)
				}
				if len(rep.Samples) < 8 || (res.Status != "ok" && len(rep.Samples) < 16) {
					s := Sample{Decisions: res.Decisions, Status: res.Status, Reach: res.Reach, Steps: res.Steps}
					if res.Witness != nil {
						s.Inputs = res.Witness.Draws
					}
					rep.Samples = append(rep.Samples, s)
				}
				work = append(work, res.NewWork...)
				if opt.MaxPaths > 0 && rep.Paths >= opt.MaxPaths || opt.TimeLimit > 0 && time.Since(start) > opt.TimeLimit {
					stop = true
				}
				if opt.Progress && rep.Paths%500 == 0 {
					fmt.Fprintf(os.Stderr, "  … %d paths, %d queued, %.0fs\n", rep.Paths, len(work), time.Since(start).Seconds())
				}
				mu.Unlock()
				cond.Broadcast()
			}
		}(workers[w])
	}
	wg.Wait()
	rep.Complete = !stop && len(work) == 0
	if stop && len(work) == 0 && active == 0 {
		rep.Complete = true
	}
	for _, in := range workers {
		st := in.sess.Stats
		rep.Queries.Sat += st.Sat
		rep.Queries.Unsat += st.Unsat
		rep.Queries.Unknown += st.Unknown
		rep.Queries.Errors += st.Errors
		rep.Queries.Total += st.Queries
		rep.SolverTime += st.SolverTime
		for f, n := range in.called {
			rep.Functions[f.String()] += n
		}
		for f := range in.stubbed {
			rep.Stubbed = append(rep.Stubbed, f)
		}
		in.sess.Close()
	}
	rep.Wall = time.Since(start)
	sort.Slice(rep.Violations, func(a, b int) bool { return rep.Violations[a].Label < rep.Violations[b].Label })
	return rep, nil
}

// FindHarness looks up a package-level function by import path and name.
func FindHarness(prog *ssa.Program, pkgPath, name string) *ssa.Function {
	for _, p := range prog.AllPackages() {
		if p.Pkg.Path() == pkgPath {
			return p.Func(name)
		}
	}
	return nil
}
