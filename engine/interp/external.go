// Copyright 2013 The Go Authors. All rights reserved.
// Use of this source code is governed by a BSD-style
// license that can be found in the LICENSE file.

package interp

// Models of functions that cannot be interpreted because they have no Go body
// or use "unsafe"/runtime services, plus the harness API (zzverif).

import (
	"fmt"
	"go/token"
	"go/types"
	"math"
	"strings"
	"unsafe"

	"golang.org/x/tools/go/ssa"
	"symgo/smt"
)

type externalFn func(fr *frame, args []value) value

// Key strings are from Function.String().
var externals = make(map[string]externalFn)

const zvSuffix = "/internal/zzverif."

var extCache = map[*ssa.Function]externalFn{}
var extCacheMu = make(chan struct{}, 1)

func findExternal(fn *ssa.Function) externalFn {
	name := fn.String()
	if ext := externals[name]; ext != nil {
		return ext
	}
	if k := strings.Index(name, zvSuffix); k >= 0 {
		if ext := zvExternals[name[k+len(zvSuffix):]]; ext != nil {
			return ext
		}
		return nil
	}
	if fn.Pkg != nil {
		switch fn.Pkg.Pkg.Path() {
		case "reflect", "internal/reflectlite":
			if fn.Synthetic == "" || fn.Blocks != nil {
				if fn.Name() == "init" || strings.HasPrefix(name, "(reflect.Kind).") || strings.HasPrefix(name, "(reflect.StructTag).") ||
					strings.HasPrefix(name, "(*reflect.ValueError).") || strings.HasPrefix(name, "(reflect.ChanDir).") ||
					strings.HasPrefix(name, "(internal/reflectlite.Kind).") || strings.HasPrefix(name, "reflect.init") {
					return nil
				}
				return func(fr *frame, args []value) value {
					if fr.i.pkgInit[fn.Pkg] == 1 {
						// while initialising the reflect package itself its
						// (unused) type descriptors are left zero
						res := fn.Signature.Results()
						switch res.Len() {
						case 0:
							return nil
						case 1:
							return zero(res.At(0).Type())
						}
						return zero(res)
					}
					panic(unsupported("reflect function not modelled: " + name))
				}
			}
		}
	}
	return nil
}

func register(m map[string]externalFn) {
	for k, v := range m {
		externals[k] = v
	}
}

func retNil(fr *frame, args []value) value { return nil }

func init() {
	register(map[string]externalFn{
		// ---- internal/bytealg ----
		"internal/bytealg.IndexByte":           extIndexByte,
		"internal/bytealg.IndexByteString":     extIndexByte,
		"internal/bytealg.LastIndexByte":       extLastIndexByte,
		"internal/bytealg.LastIndexByteString": extLastIndexByte,
		"internal/bytealg.Count":               extCountByte,
		"internal/bytealg.CountString":         extCountByte,
		"internal/bytealg.Equal":               extBytesEqual,
		"internal/bytealg.Compare":             extBytesCompare,
		"internal/bytealg.Index":               extIndex,
		"internal/bytealg.IndexString":         extIndex,
		"internal/bytealg.MakeNoZero":          func(fr *frame, a []value) value { return makeBytes(int(fr.asInt(a[0]))) },
		"internal/bytealg.Cutover":             func(fr *frame, a []value) value { return 4 },
		"strings.Index":                        extIndex,
		"bytes.Index":                          extIndex,
		"strings.LastIndex":                    extLastIndex,
		"bytes.LastIndex":                      extLastIndex,
		"bytes.Equal":                          extBytesEqual,
		"bytes.Compare":                        extBytesCompare,
		"strings.Compare":                      extBytesCompare,
		"internal/stringslite.Index":           extIndex,
		"internal/stringslite.IndexByte":       extIndexByte,
		"strings.IndexByte":                    extIndexByte,
		"bytes.IndexByte":                      extIndexByte,

		// ---- go:linkname ----
		"mime/multipart.readMIMEHeader": func(fr *frame, a []value) value {
			pkg := fr.fn.Prog.ImportedPackage("net/textproto")
			if pkg == nil || pkg.Func("readMIMEHeader") == nil {
				panic(unsupported("net/textproto.readMIMEHeader not loaded"))
			}
			return call(fr.i, fr.caller, token.NoPos, pkg.Func("readMIMEHeader"), a)
		},

		// ---- internal/abi, runtime, misc ----
		"internal/abi.NoEscape":                     func(fr *frame, a []value) value { return a[0] },
		"internal/abi.Escape":                       func(fr *frame, a []value) value { return a[0] },
		"internal/abi.FuncPCABI0":                   func(fr *frame, a []value) value { return uintptr(0) },
		"internal/abi.FuncPCABIInternal":            func(fr *frame, a []value) value { return uintptr(0) },
		"internal/race.Enable":                      retNil,
		"internal/race.Disable":                     retNil,
		"internal/race.Acquire":                     retNil,
		"internal/race.Release":                     retNil,
		"internal/race.ReleaseMerge":                retNil,
		"internal/race.Read":                        retNil,
		"internal/race.Write":                       retNil,
		"internal/race.ReadRange":                   retNil,
		"internal/race.WriteRange":                  retNil,
		"internal/race.Errors":                      func(fr *frame, a []value) value { return 0 },
		"(*internal/godebug.Setting).Value":         func(fr *frame, a []value) value { return "" },
		"(*internal/godebug.Setting).IncNonDefault": retNil,
		"(*internal/godebug.Setting).Name":          func(fr *frame, a []value) value { return "" },
		"internal/godebug.New":                      func(fr *frame, a []value) value { return (*value)(nil) },
		"runtime.GC":                                retNil,
		"runtime.Gosched":                           func(fr *frame, a []value) value { fr.i.sched.yieldAll(); return nil },
		"runtime.GOMAXPROCS":                        func(fr *frame, a []value) value { return 1 },
		"runtime.NumCPU":                            func(fr *frame, a []value) value { return 1 },
		"runtime.KeepAlive":                         retNil,
		"runtime.SetFinalizer":                      retNil,
		"runtime.Caller":                            func(fr *frame, a []value) value { return tuple{uintptr(0), "", 0, false} },
		"runtime.Callers":                           func(fr *frame, a []value) value { return 0 },
		"runtime.Stack":                             func(fr *frame, a []value) value { return 0 },
		"runtime/debug.Stack":                       func(fr *frame, a []value) value { return []value(nil) },
		"runtime.GOROOT":                            func(fr *frame, a []value) value { return "/go" },
		"os.Getenv":                                 func(fr *frame, a []value) value { return "" },
		"os.LookupEnv":                              func(fr *frame, a []value) value { return tuple{"", false} },
		"os.Exit":                                   func(fr *frame, a []value) value { panic(abortPath{"unsupported", "os.Exit called"}) },
		"os.Hostname":                               func(fr *frame, a []value) value { return tuple{"localhost", iface{}} },
		"(*log.Logger).Output":                      func(fr *frame, a []value) value { return iface{} },
		"(*log.Logger).output":                      func(fr *frame, a []value) value { return iface{} },
		"log.Printf":                                retNil,
		"log.Println":                               retNil,
		"log.Print":                                 retNil,
		"math.Float64bits":                          extFloat64bits,
		"math.Float64frombits":                      extFloat64frombits,
		"math.Float32bits":                          extFloat32bits,
		"math.Float32frombits":                      extFloat32frombits,
		"math.Abs":                                  func(fr *frame, a []value) value { return math.Abs(a[0].(float64)) },
		"math.Inf":                                  func(fr *frame, a []value) value { return math.Inf(a[0].(int)) },
		"math.NaN":                                  func(fr *frame, a []value) value { return math.NaN() },
		"math.IsNaN":                                extIsNaN,
		"math.IsInf":                                func(fr *frame, a []value) value { return math.IsInf(a[0].(float64), a[1].(int)) },
		"math.Floor":                                func(fr *frame, a []value) value { return math.Floor(a[0].(float64)) },
		"math.Ceil":                                 func(fr *frame, a []value) value { return math.Ceil(a[0].(float64)) },
		"math.Trunc":                                func(fr *frame, a []value) value { return math.Trunc(a[0].(float64)) },
		"math.Sqrt":                                 func(fr *frame, a []value) value { return math.Sqrt(a[0].(float64)) },
		"math.Log":                                  func(fr *frame, a []value) value { return math.Log(a[0].(float64)) },
		"math.Exp":                                  func(fr *frame, a []value) value { return math.Exp(a[0].(float64)) },
		"math.Ldexp":                                func(fr *frame, a []value) value { return math.Ldexp(a[0].(float64), a[1].(int)) },
		"math.Mod":                                  func(fr *frame, a []value) value { return math.Mod(a[0].(float64), a[1].(float64)) },
		"math.Pow":                                  func(fr *frame, a []value) value { return math.Pow(a[0].(float64), a[1].(float64)) },
		"math.Copysign":                             func(fr *frame, a []value) value { return math.Copysign(a[0].(float64), a[1].(float64)) },
		"math.Min":                                  func(fr *frame, a []value) value { return math.Min(a[0].(float64), a[1].(float64)) },
		"math.Max":                                  func(fr *frame, a []value) value { return math.Max(a[0].(float64), a[1].(float64)) },
	})
}

func makeBytes(n int) []value {
	b := make([]value, n)
	for k := range b {
		b[k] = byte(0)
	}
	return b
}

// seq returns the byte elements of a []byte or string value.
func seq(v value) []value {
	switch v := v.(type) {
	case []value:
		return v
	case string, symstr:
		return strElems(v)
	}
	panic(fmt.Sprintf("seq: %T", v))
}

func (i *interpreter) byteEq(a, b value) value {
	if x, ok := a.(byte); ok {
		if y, ok := b.(byte); ok {
			return x == y
		}
	}
	return i.boolVal(i.tb.Eq(i.termOf(a), i.termOf(b)))
}

func extIndexByte(fr *frame, args []value) value {
	s := seq(args[0])
	for k, e := range s {
		if fr.i.truth(fr.i.byteEq(e, args[1])) {
			return k
		}
	}
	return -1
}

func extLastIndexByte(fr *frame, args []value) value {
	s := seq(args[0])
	for k := len(s) - 1; k >= 0; k-- {
		if fr.i.truth(fr.i.byteEq(s[k], args[1])) {
			return k
		}
	}
	return -1
}

func extCountByte(fr *frame, args []value) value {
	s := seq(args[0])
	n := 0
	for _, e := range s {
		if fr.i.truth(fr.i.byteEq(e, args[1])) {
			n++
		}
	}
	return n
}

func (i *interpreter) seqEq(a, b []value) value {
	if len(a) != len(b) {
		return false
	}
	acc := i.tb.T
	for k := range a {
		e := i.byteEq(a[k], b[k])
		if bv, ok := e.(bool); ok {
			if !bv {
				return false
			}
			continue
		}
		acc = i.tb.And(acc, e.(sym).t)
	}
	return i.boolVal(acc)
}

func extBytesEqual(fr *frame, args []value) value {
	return fr.i.seqEq(seq(args[0]), seq(args[1]))
}

func extBytesCompare(fr *frame, args []value) value {
	a, b := seq(args[0]), seq(args[1])
	n := len(a)
	if len(b) < n {
		n = len(b)
	}
	for k := 0; k < n; k++ {
		if fr.i.truth(fr.i.byteEq(a[k], b[k])) {
			continue
		}
		lt := binop(fr, token.LSS, types.Typ[types.Uint8], a[k], b[k])
		if fr.i.truth(lt) {
			return -1
		}
		return 1
	}
	switch {
	case len(a) < len(b):
		return -1
	case len(a) > len(b):
		return 1
	}
	return 0
}

func extIndex(fr *frame, args []value) value {
	s, sub := seq(args[0]), seq(args[1])
	for k := 0; k+len(sub) <= len(s); k++ {
		if fr.i.truth(fr.i.seqEq(s[k:k+len(sub)], sub)) {
			return k
		}
	}
	return -1
}

func extLastIndex(fr *frame, args []value) value {
	s, sub := seq(args[0]), seq(args[1])
	for k := len(s) - len(sub); k >= 0; k-- {
		if fr.i.truth(fr.i.seqEq(s[k:k+len(sub)], sub)) {
			return k
		}
	}
	return -1
}

func extFloat64bits(fr *frame, args []value) value {
	if s, ok := args[0].(sym); ok {
		_ = s
		panic(unsupported("math.Float64bits of a symbolic float"))
	}
	return math.Float64bits(args[0].(float64))
}
func extFloat64frombits(fr *frame, args []value) value {
	if _, ok := args[0].(sym); ok {
		panic(unsupported("math.Float64frombits of a symbolic value"))
	}
	return math.Float64frombits(args[0].(uint64))
}
func extFloat32bits(fr *frame, args []value) value {
	if _, ok := args[0].(sym); ok {
		panic(unsupported("math.Float32bits of a symbolic float"))
	}
	return math.Float32bits(args[0].(float32))
}
func extFloat32frombits(fr *frame, args []value) value {
	if _, ok := args[0].(sym); ok {
		panic(unsupported("math.Float32frombits of a symbolic value"))
	}
	return math.Float32frombits(args[0].(uint32))
}
func extIsNaN(fr *frame, args []value) value {
	if s, ok := args[0].(sym); ok {
		return fr.i.boolVal(fr.i.tb.FpIsNaN(s.t))
	}
	return math.IsNaN(args[0].(float64))
}

// ---- unsafe builtins ----

func (i *interpreter) unsafeString(fr *frame, args []value) value {
	n := int(fr.asInt(args[1]))
	switch p := args[0].(type) {
	case uptr:
		switch o := p.v.(type) {
		case []value:
			return bytesToStr(o[:n])
		case string, symstr:
			return strSlice(o, 0, n)
		case nil:
			if n == 0 {
				return ""
			}
		}
	case *value:
		if p == nil && n == 0 {
			return ""
		}
		if p != nil {
			// &b[i] of an interpreter slice points into its []value backing array
			return bytesToStr(unsafe.Slice(p, n))
		}
	}
	panic(unsupported(fmt.Sprintf("unsafe.String(%T)", args[0])))
}

func (i *interpreter) unsafeData(fr *frame, args []value) value {
	return uptr{args[0]}
}

// ---- zzverif: the harness API ----

var zvExternals = map[string]externalFn{}

func init() {
	for k, v := range map[string]externalFn{
		"Byte": func(fr *frame, a []value) value {
			return fr.i.newDraw("byte", goString(a[0]), types.Uint8)
		},
		"Bool": func(fr *frame, a []value) value {
			return fr.i.newDraw("bool", goString(a[0]), types.Bool)
		},
		"Int64": func(fr *frame, a []value) value {
			return fr.i.newDraw("int64", goString(a[0]), types.Int64)
		},
		"Uint64": func(fr *frame, a []value) value {
			return fr.i.newDraw("uint64", goString(a[0]), types.Uint64)
		},
		"Int32": func(fr *frame, a []value) value {
			return fr.i.newDraw("int32", goString(a[0]), types.Int32)
		},
		"Choose": func(fr *frame, a []value) value {
			n := int(asInt64c(a[1]))
			if n <= 0 {
				panic(abortPath{"unsupported", "Choose(n<=0)"})
			}
			c := fr.i.choose(n)
			fr.i.p.draws = append(fr.i.p.draws, Draw{Kind: "choose", Name: goString(a[0]), Val: int64(c), N: n})
			return c
		},
		"Bytes": func(fr *frame, a []value) value {
			n := int(asInt64c(a[1]))
			name := goString(a[0])
			res := make([]value, n)
			for k := range res {
				res[k] = fr.i.newDraw("byte", fmt.Sprintf("%s[%d]", name, k), types.Uint8)
			}
			return res
		},
		"StringN": func(fr *frame, a []value) value {
			n := int(asInt64c(a[1]))
			name := goString(a[0])
			res := make(symstr, n)
			for k := range res {
				res[k] = fr.i.newDraw("byte", fmt.Sprintf("%s[%d]", name, k), types.Uint8)
			}
			if n == 0 {
				return ""
			}
			return res
		},
		"Cached": func(fr *frame, a []value) value {
			// Cached(key, f): run the (concrete, draw-free) setup f once per
			// worker and reuse its result on later paths; writes to the cached
			// object graph during a path abort that path (exit 2), so reuse is
			// only ever observable as identical to re-execution.
			key := goString(a[0])
			i := fr.i
			if i.cfg.MapOrders {
				// map iteration orders inside the setup are part of what is
				// explored in this tier: the setup is re-executed on every path
				return call(i, fr, token.NoPos, a[1], nil)
			}
			v, ok := i.setupCache[key]
			if !ok {
				nd, ndec := len(i.p.draws), len(i.p.decisions)
				v = call(i, fr, token.NoPos, a[1], nil)
				if len(i.p.draws) != nd || len(i.p.decisions) != ndec {
					panic(abortPath{"unsupported", "Cached setup " + key + " made draws or decisions"})
				}
				i.setupCache[key] = v
			}
			i.protectCached(v)
			return v
		},
		"Stub": func(fr *frame, a []value) value {
			// Stub(name, fn): for the rest of this path, calls to the function
			// whose SSA name is name are served by the harness function fn
			// (environment = nondeterministic stubs; listed in the evidence).
			if fr.i.p.stubs == nil {
				fr.i.p.stubs = map[string]value{}
			}
			fr.i.p.stubs[goString(a[0])] = a[1].(iface).v
			fr.i.stubbed[goString(a[0])] = true
			return nil
		},
		"Param": func(fr *frame, a []value) value {
			if v, ok := fr.i.cfg.Params[goString(a[0])]; ok {
				return v
			}
			return int(asInt64c(a[1]))
		},
		"Assume": func(fr *frame, a []value) value {
			fr.i.assume(a[0])
			return nil
		},
		"Assert": func(fr *frame, a []value) value {
			fr.i.assertCond(goString(a[0]), a[1], nil, "")
			return nil
		},
		"AssertExcept": func(fr *frame, a []value) value {
			fr.i.assertCond(goString(a[0]), a[1], a[2], goString(a[3]))
			return nil
		},
		"Reach": func(fr *frame, a []value) value {
			fr.i.p.reach[goString(a[0])] = true
			return nil
		},
		"Observe": func(fr *frame, a []value) value {
			fr.i.p.observes = append(fr.i.p.observes, Observation{goString(a[0]), a[1]})
			return nil
		},
		"Goroutines": func(fr *frame, a []value) value {
			return fr.i.sched.yieldAll()
		},
		"Symbolic": func(fr *frame, a []value) value { return true },
		"Concrete": func(fr *frame, a []value) value {
			// Concrete(x int) int: fork over feasible values
			return int(fr.asInt(a[0]))
		},
		"IsSym": func(fr *frame, a []value) value {
			return isSymbolic(a[0].(iface).v)
		},
		"BeginShared": func(fr *frame, a []value) value {
			fr.i.beginShared(a[0].([]value))
			return nil
		},
		"EndShared": func(fr *frame, a []value) value {
			fr.i.p.monitorOn = false
			return nil
		},
		"SetField": func(fr *frame, a []value) value {
			return fr.i.setField(fr, a)
		},
		"Ite": func(fr *frame, a []value) value {
			// Ite(c bool, x, y byte) byte without forking
			tb := fr.i.tb
			c := fr.i.termOf(a[0])
			k := kindOf(a[1])
			if _, ok := a[1].(sym); !ok {
				k = kindOf(a[2])
			}
			return fr.i.mkVal(k, tb.Ite(c, fr.i.termOf(a[1]), fr.i.termOf(a[2])))
		},
		"And": func(fr *frame, a []value) value {
			return fr.i.boolVal(fr.i.tb.And(fr.i.termOf(a[0]), fr.i.termOf(a[1])))
		},
		"Or": func(fr *frame, a []value) value {
			return fr.i.boolVal(fr.i.tb.Or(fr.i.termOf(a[0]), fr.i.termOf(a[1])))
		},
		"Not": func(fr *frame, a []value) value {
			return fr.i.boolVal(fr.i.tb.Not(fr.i.termOf(a[0])))
		},
		"Implies": func(fr *frame, a []value) value {
			return fr.i.boolVal(fr.i.tb.Or(fr.i.tb.Not(fr.i.termOf(a[0])), fr.i.termOf(a[1])))
		},
		"StrEq": func(fr *frame, a []value) value {
			return fr.i.equalsV(types.Typ[types.String], a[0], a[1])
		},
		"BytesEq": func(fr *frame, a []value) value {
			return fr.i.seqEq(seq(a[0]), seq(a[1]))
		},
	} {
		zvExternals[k] = v
	}
}

func goString(v value) string {
	switch v := v.(type) {
	case string:
		return v
	case symstr:
		return toString(v)
	}
	panic(fmt.Sprintf("goString: %T", v))
}

// setField sets a (possibly unexported) field of a struct through a pointer:
// SetField(ptr any, name string, val any).
func (i *interpreter) setField(fr *frame, a []value) value {
	p := a[0].(iface)
	name := goString(a[1])
	v := a[2].(iface)
	pt, ok := p.t.Underlying().(*types.Pointer)
	if !ok {
		panic(unsupported("SetField: not a pointer"))
	}
	st := pt.Elem().Underlying().(*types.Struct)
	for k := 0; k < st.NumFields(); k++ {
		if st.Field(k).Name() == name {
			cell := &(*p.v.(*value)).(structure)[k]
			if _, isIface := st.Field(k).Type().Underlying().(*types.Interface); isIface {
				store(st.Field(k).Type(), cell, v)
			} else {
				store(st.Field(k).Type(), cell, copyVal(v.v))
			}
			return nil
		}
	}
	panic(unsupported("SetField: no field " + name))
}

// beginShared marks every heap cell reachable from the roots as shared.
func (i *interpreter) beginShared(roots []value) {
	p := i.p
	p.shared = map[*value]bool{}
	p.sharedMaps = map[*omap]bool{}
	var walk func(v value)
	walk = func(v value) {
		switch v := v.(type) {
		case *value:
			if v == nil || p.shared[v] {
				return
			}
			p.shared[v] = true
			walk(*v)
		case structure:
			for k := range v {
				p.shared[&v[k]] = true
				walk(v[k])
			}
		case array:
			for k := range v {
				p.shared[&v[k]] = true
				walk(v[k])
			}
		case []value:
			full := v[:cap(v)]
			for k := range full {
				if p.shared[&full[k]] {
					return
				}
				p.shared[&full[k]] = true
				walk(full[k])
			}
		case iface:
			walk(v.v)
		case *omap:
			if v == nil || p.sharedMaps[v] {
				return
			}
			p.sharedMaps[v] = true
			for _, e := range v.entries {
				walk(e.key)
				walk(e.val)
			}
		case *closure:
			for _, e := range v.Env {
				walk(e)
			}
		}
	}
	for _, r := range roots {
		walk(r)
	}
	p.monitorOn = true
}

// protectCached marks the object graph of a cached setup value: a write to it
// during the path is reported as an engine fault.
func (i *interpreter) protectCached(root value) {
	p := i.p
	if p.cached == nil {
		p.cached = map[*value]bool{}
		p.cachedMaps = map[*omap]bool{}
	}
	var walk func(v value)
	walk = func(v value) {
		switch v := v.(type) {
		case *value:
			if v == nil || p.cached[v] {
				return
			}
			p.cached[v] = true
			walk(*v)
		case structure:
			for k := range v {
				p.cached[&v[k]] = true
				walk(v[k])
			}
		case array:
			for k := range v {
				p.cached[&v[k]] = true
				walk(v[k])
			}
		case []value:
			full := v[:cap(v)]
			for k := range full {
				if p.cached[&full[k]] {
					return
				}
				p.cached[&full[k]] = true
				walk(full[k])
			}
		case iface:
			walk(v.v)
		case *omap:
			if v == nil || p.cachedMaps[v] {
				return
			}
			p.cachedMaps[v] = true
			for _, e := range v.entries {
				walk(e.key)
				walk(e.val)
			}
		case *closure:
			for _, e := range v.Env {
				walk(e)
			}
		}
	}
	walk(root)
}

func (i *interpreter) noteWrite(fr *frame, addr *value) {
	p := i.p
	if p.cached != nil && p.cached[addr] {
		panic(abortPath{"unsupported", "write to cached setup state in " + fr.fn.String() + loc(fr.fn.Prog.Fset, curPos(fr))})
	}
	if !p.monitorOn || !p.shared[addr] {
		return
	}
	if i.sched.protected() {
		return
	}
	_, m := i.modelOf(nil)
	i.recordViolation("no-unprotected-shared-write", "assert",
		"write to shared cell in "+fr.fn.String()+loc(fr.fn.Prog.Fset, curPos(fr)), "", m)
}

// noteSliceWrite / noteAppend: the builtins copy and append write slice cells
// without a Store instruction; an append within capacity writes in place into
// the (possibly shared) backing array.
func (i *interpreter) noteSliceWrite(fr *frame, cells []value) {
	p := i.p
	if p == nil || (!p.monitorOn && p.cached == nil) {
		return
	}
	for k := range cells {
		i.noteWrite(fr, &cells[k])
	}
}

func (i *interpreter) noteAppend(fr *frame, dst []value, n int) {
	if n == 0 || len(dst)+n > cap(dst) {
		return // nothing written, or a fresh backing array is allocated
	}
	i.noteSliceWrite(fr, dst[len(dst):len(dst)+n])
}

func (i *interpreter) noteMapWrite(fr *frame, mp *omap) {
	p := i.p
	if p.cachedMaps != nil && p.cachedMaps[mp] {
		panic(abortPath{"unsupported", "write to cached setup map in " + fr.fn.String() + loc(fr.fn.Prog.Fset, curPos(fr))})
	}
	if !p.monitorOn || !p.sharedMaps[mp] {
		return
	}
	if i.sched.protected() {
		return
	}
	_, m := i.modelOf(nil)
	i.recordViolation("no-unprotected-shared-write", "assert",
		"write to shared map in "+fr.fn.String()+loc(fr.fn.Prog.Fset, curPos(fr)), "", m)
}

var _ = smt.Bool

// ---- fmt: formatting is never the subject of a property ----
//
// The fmt entry points are interpreted from their SSA like any other code, but
// symbolic scalars and strings among their direct arguments are first replaced
// by concrete placeholders of the same type and length (message text is
// environment: rendering %q/%d of a symbolic value would fork per byte/digit).
// Harness assertions never inspect message text.
var fmtEntry = map[string]bool{"Sprintf": true, "Errorf": true, "Sprint": true, "Sprintln": true,
	"Fprintf": true, "Fprint": true, "Fprintln": true, "Appendf": true, "Append": true, "Appendln": true}

func fmtPlaceholder(v value) (value, bool) {
	switch x := v.(type) {
	case sym:
		return zero(types.Typ[x.k]), true
	case symstr:
		b := make([]byte, len(x))
		for k, e := range x {
			if c, ok := e.(byte); ok {
				b[k] = c
			} else {
				b[k] = '?'
			}
		}
		return string(b), true
	case iface:
		if nv, ch := fmtPlaceholder(x.v); ch {
			return iface{x.t, nv}, true
		}
	}
	return v, false
}

func sanitizeFmtArgs(args []value) []value {
	var out []value
	set := func(k int, v value) {
		if out == nil {
			out = append([]value(nil), args...)
		}
		out[k] = v
	}
	for k, a := range args {
		if sl, ok := a.([]value); ok {
			var ns []value
			for j, e := range sl {
				if ne, ch := fmtPlaceholder(e); ch {
					if ns == nil {
						ns = append([]value(nil), sl...)
					}
					ns[j] = ne
				}
			}
			if ns != nil {
				set(k, ns)
			}
			continue
		}
		if nv, ch := fmtPlaceholder(a); ch {
			set(k, nv)
		}
	}
	if out == nil {
		return args
	}
	return out
}
