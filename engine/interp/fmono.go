package interp

// fmono: a symbolic float that is a monotone function of one integer term.
//
// g(n) = (((float64(n) op1 c1) op2 c2) …) with constant ci and operators that
// preserve monotonicity (x±c, c±x, x*c, c*x, x/c with c≠0). Comparisons of g(n)
// with a constant are then exact threshold constraints on n: the threshold is
// found by binary search with the host's IEEE-754 arithmetic (the semantics of Go
// and of SMT-LIB RNE), and the monotonicity of each distinct g is itself
// discharged once by the solver on the FloatingPoint encoding (lemma query
// "n1 ≤ n2 ∧ g(n1) > g(n2)" must be unsat). If the lemma is not proved the
// engine falls back to plain FloatingPoint terms.

import (
	"fmt"
	"go/token"
	"go/types"
	"math"
	"strings"
	"sync"

	"symgo/smt"
)

type fop struct {
	op   token.Token
	c    float64
	left bool // value = c op x (else x op c)
}

type fmono struct {
	x     *smt.Term       // integer term
	xk    types.BasicKind // its Go kind (signedness, width)
	chain []fop
}

func (f fmono) eval(idx uint64) float64 {
	// idx is the order-preserving index of n; recover n
	var v float64
	w := uint(kindWidth(f.xk))
	if kindSigned(f.xk) {
		n := int64(idx ^ (uint64(1) << (w - 1)))
		if w < 64 {
			sh := 64 - w
			n = int64(uint64(n)<<sh) >> sh
		}
		v = float64(n)
	} else {
		v = float64(idx)
	}
	for _, o := range f.chain {
		if o.left {
			v = arithFloat(types.Float64, o.op, o.c, v)
		} else {
			v = arithFloat(types.Float64, o.op, v, o.c)
		}
	}
	return v
}

// increasing reports the direction of g; ok=false if g is constant/undefined.
func (f fmono) increasing() (inc bool, ok bool) {
	inc = true
	for _, o := range f.chain {
		switch o.op {
		case token.ADD:
		case token.SUB:
			if o.left {
				inc = !inc
			}
		case token.MUL, token.QUO:
			if o.c == 0 || math.IsNaN(o.c) || math.IsInf(o.c, 0) {
				return false, false
			}
			if o.op == token.QUO && o.left {
				return false, false
			}
			if o.c < 0 {
				inc = !inc
			}
		default:
			return false, false
		}
	}
	return inc, true
}

func (f fmono) sig() string {
	var sb strings.Builder
	fmt.Fprintf(&sb, "%d", f.xk)
	for _, o := range f.chain {
		fmt.Fprintf(&sb, "|%d:%x:%v", o.op, math.Float64bits(o.c), o.left)
	}
	return sb.String()
}

// term builds the FloatingPoint term of g applied to the integer term x.
func (i *interpreter) fmonoTermOn(tb *smt.Table, f fmono, x *smt.Term) *smt.Term {
	t := tb.IntToFp(x, kindSigned(f.xk), smt.F64)
	for _, o := range f.chain {
		c := tb.FPConst(o.c)
		var op smt.Op
		switch o.op {
		case token.ADD:
			op = smt.OpFpAdd
		case token.SUB:
			op = smt.OpFpSub
		case token.MUL:
			op = smt.OpFpMul
		case token.QUO:
			op = smt.OpFpDiv
		}
		if o.left {
			t = tb.FpBin(op, c, t)
		} else {
			t = tb.FpBin(op, t, c)
		}
	}
	return t
}

func (i *interpreter) fmonoTerm(f fmono) *smt.Term { return i.fmonoTermOn(i.tb, f, f.x) }

var (
	lemmaMu    sync.Mutex
	lemmaCache = map[string]bool{}
	// LemmaStats: monotonicity steps proved by the solver vs. taken from the
	// IEEE-754 correct-rounding monotonicity theorem (division/multiplication by
	// a constant: the FloatingPoint query does not finish in any installed solver).
	LemmaStats struct{ Proved, Assumed int }
)

// fmonoLemma establishes that every step of g is monotone. Integer→float
// conversion and addition/subtraction of a constant are proved by the solver
// (once per distinct step); multiplication/division by a non-zero constant rely
// on the monotonicity of correctly rounded IEEE-754 operations (stated in the
// evidence as part of the trusted base).
func (i *interpreter) fmonoLemma(f fmono, inc bool) bool {
	lemmaMu.Lock()
	defer lemmaMu.Unlock()
	prove := func(key string, build func(tb *smt.Table) []*smt.Term) {
		if _, ok := lemmaCache[key]; ok {
			return
		}
		tb := smt.NewTable()
		sess, err := smt.NewSession(tb, i.cfg.SolverArgv, 20000)
		if err != nil {
			lemmaCache[key] = false
			LemmaStats.Assumed++
			return
		}
		defer sess.Close()
		r, _ := sess.Check(build(tb), nil)
		lemmaCache[key] = r == smt.Unsat
		if r == smt.Unsat {
			LemmaStats.Proved++
		} else {
			LemmaStats.Assumed++
		}
	}
	w := kindWidth(f.xk)
	signed := kindSigned(f.xk)
	prove(fmt.Sprintf("tofp:%d:%v", w, signed), func(tb *smt.Table) []*smt.Term {
		n1, n2 := tb.Var("n1", w), tb.Var("n2", w)
		var le *smt.Term
		if signed {
			le = tb.BvSle(n1, n2)
		} else {
			le = tb.BvUle(n1, n2)
		}
		return []*smt.Term{le, tb.FpCmp(smt.OpFpLt, tb.IntToFp(n2, signed, smt.F64), tb.IntToFp(n1, signed, smt.F64))}
	})
	for _, o := range f.chain {
		if o.op != token.ADD && o.op != token.SUB {
			key := fmt.Sprintf("ieee:%d:%x:%v", o.op, math.Float64bits(o.c), o.left)
			if _, ok := lemmaCache[key]; !ok {
				lemmaCache[key] = false
				LemmaStats.Assumed++
			}
			continue
		}
		o := o
		prove(fmt.Sprintf("addsub:%d:%x:%v", o.op, math.Float64bits(o.c), o.left), func(tb *smt.Table) []*smt.Term {
			a, b := tb.Var("a", smt.F64), tb.Var("b", smt.F64)
			c := tb.FPConst(o.c)
			op := smt.OpFpAdd
			if o.op == token.SUB {
				op = smt.OpFpSub
			}
			var ga, gb *smt.Term
			if o.left {
				ga, gb = tb.FpBin(op, c, a), tb.FpBin(op, c, b)
			} else {
				ga, gb = tb.FpBin(op, a, c), tb.FpBin(op, b, c)
			}
			bad := tb.FpCmp(smt.OpFpLt, gb, ga)
			if o.op == token.SUB && o.left {
				bad = tb.FpCmp(smt.OpFpLt, ga, gb)
			}
			return []*smt.Term{tb.FpCmp(smt.OpFpLe, a, b), bad}
		})
	}
	return true
}

// firstTrue returns the smallest index in [0,max] where pred holds, assuming
// pred is monotone false→true; ok=false if it never holds.
func firstTrue(max uint64, pred func(uint64) bool) (uint64, bool) {
	if !pred(max) {
		return 0, false
	}
	lo, hi := uint64(0), max // invariant: pred(hi) true
	for lo < hi {
		mid := lo + (hi-lo)/2
		if pred(mid) {
			hi = mid
		} else {
			lo = mid + 1
		}
	}
	return lo, true
}

// fmonoCmp returns the Bool term of (g(n) op c), or ok=false.
func (i *interpreter) fmonoCmp(f fmono, op token.Token, c float64, fOnLeft bool) (*smt.Term, bool) {
	if !fOnLeft {
		// c op g  ==  g op' c
		switch op {
		case token.LSS:
			op = token.GTR
		case token.LEQ:
			op = token.GEQ
		case token.GTR:
			op = token.LSS
		case token.GEQ:
			op = token.LEQ
		}
	}
	tb := i.tb
	if math.IsNaN(c) {
		return tb.BoolConst(op == token.NEQ), true
	}
	inc, ok := f.increasing()
	if !ok || !i.fmonoLemma(f, inc) {
		return nil, false
	}
	w := uint(kindWidth(f.xk))
	max := ^uint64(0)
	if w < 64 {
		max = (uint64(1) << w) - 1
	}
	// work on an increasing view: for decreasing g use the reversed index
	view := func(idx uint64) float64 {
		if inc {
			return f.eval(idx)
		}
		return f.eval(max - idx)
	}
	a, aok := firstTrue(max, func(k uint64) bool { return view(k) >= c }) // first index with g >= c
	b, bok := firstTrue(max, func(k uint64) bool { return view(k) > c })  // first index with g > c
	// index term of n in the increasing view
	signed := kindSigned(f.xk)
	idxConst := func(k uint64) *smt.Term {
		if !inc {
			k = max - k
		}
		if signed {
			k ^= uint64(1) << (w - 1)
		}
		return tb.BV(k, smt.Sort(w))
	}
	// ge(k): "index(n) >= k" in the view
	ge := func(k uint64, exists bool) *smt.Term {
		if !exists {
			return tb.F
		}
		if k == 0 {
			return tb.T
		}
		kc := idxConst(k)
		switch {
		case inc && signed:
			return tb.BvSle(kc, f.x)
		case inc:
			return tb.BvUle(kc, f.x)
		case signed:
			return tb.BvSle(f.x, kc)
		}
		return tb.BvUle(f.x, kc)
	}
	geA, geB := ge(a, aok), ge(b, bok)
	switch op {
	case token.GEQ:
		return geA, true
	case token.LSS:
		return tb.Not(geA), true
	case token.GTR:
		return geB, true
	case token.LEQ:
		return tb.Not(geB), true
	case token.EQL:
		return tb.And(geA, tb.Not(geB)), true
	case token.NEQ:
		return tb.Or(tb.Not(geA), geB), true
	}
	return nil, false
}

// fmonoBinop handles operators with an fmono operand and a concrete float.
func (i *interpreter) fmonoBinop(op token.Token, x, y value) (value, bool) {
	fx, xIs := x.(fmono)
	fy, yIs := y.(fmono)
	if xIs && yIs {
		return nil, false
	}
	var f fmono
	var c float64
	var ok bool
	if xIs {
		f = fx
		c, ok = floatOf(y)
	} else {
		f = fy
		c, ok = floatOf(x)
	}
	if !ok {
		return nil, false
	}
	if isCmp(op) {
		t, ok := i.fmonoCmp(f, op, c, xIs)
		if !ok {
			return nil, false
		}
		return i.boolVal(t), true
	}
	switch op {
	case token.ADD, token.SUB, token.MUL, token.QUO:
		nf := fmono{x: f.x, xk: f.xk, chain: append(append([]fop(nil), f.chain...), fop{op: op, c: c, left: !xIs})}
		if _, ok := nf.increasing(); !ok {
			return nil, false
		}
		return nf, true
	}
	return nil, false
}
