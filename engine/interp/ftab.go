package interp

// ftab: an exactly tabulated symbolic float.
//
// Floating-point terms are the weakest spot of every bit-blasting back end
// (a single fp.div query takes seconds). Where a float is a function of an
// integer term with few feasible values under the current path condition
// (q-values: float64(n)/float64(d) for digit strings), the engine enumerates
// those values with the solver and carries the float as a table
// key-value → IEEE double computed with the host's (IEEE-754, round-to-nearest-
// even) arithmetic, which is the semantics of both Go and SMT-LIB RNE. All
// comparisons then become pure bit-vector constraints over the key.

import (
	"fmt"
	"go/token"
	"go/types"
	"sort"

	"symgo/smt"
)

type ftab struct {
	k    types.BasicKind // Float32 | Float64
	key  *smt.Term       // bit-vector term
	keys []uint64        // feasible values of key under the PC at creation
	vals []float64       // float value for each key value
}

const ftabMax = 16

// tabulate tries to turn int→float conversion of x into an ftab.
func (i *interpreter) tabulate(dst types.BasicKind, x sym) (value, bool) {
	if i.p == nil || x.t.Sort <= 0 {
		return nil, false
	}
	tb := i.tb
	var keys []uint64
	var block []*smt.Term
	// the feasible set depends only on the term and the path condition: cache
	// it per worker (paths are re-executed from their decision prefix)
	ck := i.tabKey(x.t)
	if cached, ok := i.tabCache[ck]; ok {
		if cached == nil {
			return nil, false
		}
		return i.mkFtab(dst, x, cached), true
	}
	defer func() {
		if len(keys) > ftabMax || len(keys) == 0 {
			i.tabCache[ck] = nil
		} else {
			i.tabCache[ck] = keys
		}
	}()
	for {
		r, m := i.sess.Check(block, []*smt.Term{x.t})
		if r == smt.Unsat {
			break
		}
		if r != smt.Sat {
			return nil, false
		}
		v, ok := m[termRef(x.t)]
		if !ok {
			return nil, false
		}
		keys = append(keys, v)
		block = append(block, tb.Not(tb.Eq(x.t, tb.BV(v, x.t.Sort))))
		if len(keys) > ftabMax {
			return nil, false
		}
	}
	if len(keys) == 0 {
		panic(abortPath{"infeasible", "tabulate: no feasible value"})
	}
	sort.Slice(keys, func(a, b int) bool { return keys[a] < keys[b] })
	return i.mkFtab(dst, x, keys), true
}

func (i *interpreter) tabKey(t *smt.Term) string {
	ids := make([]int, 0, len(i.p.pc))
	for _, c := range i.p.pc {
		ids = append(ids, c.ID)
	}
	sort.Ints(ids)
	return fmt.Sprint(t.ID, ids)
}

func (i *interpreter) mkFtab(dst types.BasicKind, x sym, keys []uint64) value {
	vals := make([]float64, len(keys))
	for j, kv := range keys {
		var f float64
		if kindSigned(x.k) {
			f = float64(signExtendKind(x.k, kv))
		} else {
			f = float64(kv)
		}
		if dst == types.Float32 {
			f = float64(float32(f))
		}
		vals[j] = f
	}
	if len(keys) == 1 {
		return fromBitsFloat(dst, vals[0])
	}
	return ftab{k: dst, key: x.t, keys: keys, vals: vals}
}

func fromBitsFloat(k types.BasicKind, f float64) value {
	if k == types.Float32 {
		return float32(f)
	}
	return f
}

// materialise returns the FloatingPoint term of an ftab (ite chain of constants).
func (i *interpreter) ftabTerm(f ftab) *smt.Term {
	tb := i.tb
	mk := func(v float64) *smt.Term {
		if f.k == types.Float32 {
			return tb.FP32Const(float32(v))
		}
		return tb.FPConst(v)
	}
	res := mk(f.vals[len(f.vals)-1])
	for j := len(f.vals) - 2; j >= 0; j-- {
		res = tb.Ite(tb.Eq(f.key, tb.BV(f.keys[j], f.key.Sort)), mk(f.vals[j]), res)
	}
	return res
}

// keyIn builds the Bool term "key ∈ {keys[j] : sel[j]}" compactly.
func (i *interpreter) ftabSel(f ftab, sel []bool) *smt.Term {
	tb := i.tb
	all, none := true, true
	for _, s := range sel {
		if s {
			none = false
		} else {
			all = false
		}
	}
	if all {
		return tb.T
	}
	if none {
		return tb.F
	}
	acc := tb.F
	for j := 0; j < len(sel); {
		if !sel[j] {
			j++
			continue
		}
		e := j
		for e+1 < len(sel) && sel[e+1] {
			e++
		}
		// keys are sorted: a run of selected neighbours is an unsigned interval
		// intersected with the feasible set, so the interval constraint suffices
		var c *smt.Term
		lo, hi := tb.BV(f.keys[j], f.key.Sort), tb.BV(f.keys[e], f.key.Sort)
		if j == e {
			c = tb.Eq(f.key, lo)
		} else {
			c = tb.And(tb.BvUle(lo, f.key), tb.BvUle(f.key, hi))
		}
		acc = tb.Or(acc, c)
		j = e + 1
	}
	return acc
}

func cmpFloat(op token.Token, a, b float64) bool {
	switch op {
	case token.EQL:
		return a == b
	case token.NEQ:
		return a != b
	case token.LSS:
		return a < b
	case token.LEQ:
		return a <= b
	case token.GTR:
		return a > b
	case token.GEQ:
		return a >= b
	}
	panic("cmpFloat")
}

func arithFloat(k types.BasicKind, op token.Token, a, b float64) float64 {
	var r float64
	if k == types.Float32 {
		x, y := float32(a), float32(b)
		switch op {
		case token.ADD:
			return float64(x + y)
		case token.SUB:
			return float64(x - y)
		case token.MUL:
			return float64(x * y)
		case token.QUO:
			return float64(x / y)
		}
	}
	switch op {
	case token.ADD:
		r = a + b
	case token.SUB:
		r = a - b
	case token.MUL:
		r = a * b
	case token.QUO:
		r = a / b
	default:
		panic("arithFloat")
	}
	return r
}

func floatOf(v value) (float64, bool) {
	switch v := v.(type) {
	case float64:
		return v, true
	case float32:
		return float64(v), true
	}
	return 0, false
}

func isCmp(op token.Token) bool {
	switch op {
	case token.EQL, token.NEQ, token.LSS, token.LEQ, token.GTR, token.GEQ:
		return true
	}
	return false
}

// ftabBinop handles binary operators with at least one ftab operand; ok=false
// means "fall back to FloatingPoint terms".
func (i *interpreter) ftabBinop(op token.Token, x, y value) (value, bool) {
	fx, xIs := x.(ftab)
	fy, yIs := y.(ftab)
	tb := i.tb
	switch {
	case xIs && yIs:
		if !isCmp(op) {
			return nil, false
		}
		if fx.key == fy.key && len(fx.keys) == len(fy.keys) {
			sel := make([]bool, len(fx.keys))
			for j := range fx.keys {
				sel[j] = cmpFloat(op, fx.vals[j], fy.vals[j])
			}
			return i.boolVal(i.ftabSel(fx, sel)), true
		}
		acc := tb.F
		for j := range fx.keys {
			sel := make([]bool, len(fy.keys))
			for l := range fy.keys {
				sel[l] = cmpFloat(op, fx.vals[j], fy.vals[l])
			}
			acc = tb.Or(acc, tb.And(tb.Eq(fx.key, tb.BV(fx.keys[j], fx.key.Sort)), i.ftabSel(fy, sel)))
		}
		return i.boolVal(acc), true
	case xIs:
		c, ok := floatOf(y)
		if !ok {
			return nil, false
		}
		if isCmp(op) {
			sel := make([]bool, len(fx.keys))
			for j := range fx.keys {
				sel[j] = cmpFloat(op, fx.vals[j], c)
			}
			return i.boolVal(i.ftabSel(fx, sel)), true
		}
		nv := make([]float64, len(fx.vals))
		for j := range nv {
			nv[j] = arithFloat(fx.k, op, fx.vals[j], c)
		}
		return ftab{k: fx.k, key: fx.key, keys: fx.keys, vals: nv}, true
	case yIs:
		c, ok := floatOf(x)
		if !ok {
			return nil, false
		}
		if isCmp(op) {
			sel := make([]bool, len(fy.keys))
			for j := range fy.keys {
				sel[j] = cmpFloat(op, c, fy.vals[j])
			}
			return i.boolVal(i.ftabSel(fy, sel)), true
		}
		nv := make([]float64, len(fy.vals))
		for j := range nv {
			nv[j] = arithFloat(fy.k, op, c, fy.vals[j])
		}
		return ftab{k: fy.k, key: fy.key, keys: fy.keys, vals: nv}, true
	}
	return nil, false
}
