// Copyright 2013 The Go Authors. All rights reserved.
// Use of this source code is governed by a BSD-style
// license that can be found in the LICENSE file.

// Package interp is symgo's symbolic SSA interpreter. It is derived from
// golang.org/x/tools/go/ssa/interp (v0.29.0): heap, pointers, dynamic types,
// lengths and control flow are concrete per path; scalars may be SMT terms;
// every symbolic branch, concretisation and nondeterministic choice is a
// decision explored exhaustively by decision-replay DFS (see explore.go).
package interp

import (
	"fmt"
	"go/token"
	"go/types"
	"os"
	"runtime"
	"slices"
	"strings"

	"golang.org/x/tools/go/ssa"
	"symgo/smt"
)

type continuation int

const (
	kNext continuation = iota
	kReturn
	kJump
)

type methodSet map[string]*ssa.Function

// Config holds engine options shared by all workers.
type Config struct {
	Verbose        bool
	Trace          bool
	MaxSteps       int64 // per path instruction budget (unwinding assertion)
	MaxDecisions   int   // per path decision budget
	MaxConcretize  int   // max feasible values when concretising a symbolic int
	MaxCallDepth   int
	QueryTimeoutMs int
	SolverArgv     []string
	MapOrders      bool     // explore map iteration orders in volatile packages
	VolatilePrefix []string // packages whose globals are re-initialised per path
	NoMerge        bool     // disable if-conversion
	KnownFindings  map[string]bool
	Params         map[string]int
	ByteDomains    bool // decide single-byte conditions by exact domain evaluation
	DomainAudit    int  // re-decide every n-th domain verdict with the solver (0 = never)
}

// State of one worker. Not shared between workers.
type interpreter struct {
	prog               *ssa.Program
	globals            map[*ssa.Global]*value // addresses of global variables
	pkgInit            map[*ssa.Package]int   // 0 = not run, 1 = running, 2 = done
	cfg                *Config
	errorMethods       methodSet  // the method set of reflect.error, which implements the error interface.
	rtypeMethods       methodSet  // the method set of rtype, which implements the reflect.Type interface.
	runtimeErrorString types.Type // the runtime.errorString type
	sizes              types.Sizes
	funcCache          map[string]*ssa.Function
	called             map[*ssa.Function]int

	tb         *smt.Table
	sess       *smt.Session
	tabCache   map[string][]uint64
	setupCache map[string]value
	varMemo    map[int]*smt.Term
	stubbed    map[string]bool

	p     *pathState
	sched *scheduler
	depth int
}

// abortPath is thrown (as a Go panic) to end the current path. It is never
// visible to the target program's recover().
type abortPath struct {
	kind string // infeasible | bound | unsupported | deadlock | done
	msg  string
}

func unsupported(msg string) abortPath { return abortPath{"unsupported", msg} }

type deferred struct {
	fn    value
	args  []value
	instr *ssa.Defer
	tail  *deferred
}

type frame struct {
	i                *interpreter
	caller           *frame
	fn               *ssa.Function
	block, prevBlock *ssa.BasicBlock
	env              map[ssa.Value]value // dynamic values of SSA variables
	locals           []value
	defers           *deferred
	result           value
	panicking        bool
	panic            interface{}
	phitemps         []value // temporaries for parallel phi assignment
	curInstr         ssa.Instruction
}

func (i *interpreter) rtPanic(msg string) targetPanic {
	if !strings.HasPrefix(msg, "interface conversion") {
		// runtime.errorString.Error() adds the "runtime error: " prefix itself
	}
	return targetPanic{iface{i.runtimeErrorString, msg}}
}

func (i *interpreter) global(g *ssa.Global) *value {
	if r, ok := i.globals[g]; ok {
		return r
	}
	cell := zero(mustDeref(g.Type()))
	i.globals[g] = &cell
	return &cell
}

func (fr *frame) get(key ssa.Value) value {
	switch key := key.(type) {
	case nil:
		// Hack; simplifies handling of optional attributes
		// such as ssa.Slice.{Low,High}.
		return nil
	case *ssa.Function, *ssa.Builtin:
		return key
	case *ssa.Const:
		return constValue(key)
	case *ssa.Global:
		fr.i.ensureInit(fr, key.Pkg)
		return fr.i.global(key)
	}
	if r, ok := fr.env[key]; ok {
		return r
	}
	panic(fmt.Sprintf("get: no value for %T: %v", key, key.Name()))
}

// asInt converts an integer value to int64, concretising symbolic values by a
// decision over their feasible values.
func (fr *frame) asInt(v value) int64 {
	if s, ok := v.(sym); ok {
		return fr.i.concretize(s)
	}
	return asInt64c(v)
}

var initDeny = map[string]bool{
	"runtime": true, "os": true, "syscall": true, "unsafe": true,
	"sync": true, "sync/atomic": true, "testing": true, "net": true, "os/signal": true,
	"runtime/debug": true, "runtime/pprof": true, "runtime/trace": true, "log": true,
	"crypto/rand": true, "math/rand": true, "math/rand/v2": true, "os/exec": true, "os/user": true,
	"internal/godebug": true, "internal/poll": true, "internal/testlog": true,
}

func initDenied(path string) bool {
	if initDeny[path] {
		return true
	}
	if strings.HasPrefix(path, "internal/") || strings.HasPrefix(path, "runtime/") ||
		strings.HasPrefix(path, "crypto/internal/") {
		return path != "internal/stringslite" && path != "internal/itoa"
	}
	return false
}

// ensureInit lazily runs the package initializer of pkg (without the nested
// initializer calls of its imports, which run on their own first touch).
func (i *interpreter) ensureInit(fr *frame, pkg *ssa.Package) {
	if pkg == nil {
		return
	}
	if i.pkgInit[pkg] != 0 {
		return
	}
	i.pkgInit[pkg] = 1
	if !initDenied(pkg.Pkg.Path()) {
		if init := pkg.Func("init"); init != nil && init.Blocks != nil {
			if i.cfg.Verbose {
				fmt.Fprintf(os.Stderr, "[init %s]\n", pkg.Pkg.Path())
			}
			// run init in a neutral context: initialisers must not depend on
			// the path; budget is shared.
			callSSA(i, nil, token.NoPos, init, nil, nil)
		}
	}
	i.pkgInit[pkg] = 2
}

// runDefer runs a deferred call d.
// It always returns normally, but may set or clear fr.panic.
func (fr *frame) runDefer(d *deferred) {
	var ok bool
	defer func() {
		if !ok {
			// Deferred call created a new state of panic.
			r := recover()
			if a, isAbort := r.(abortPath); isAbort {
				panic(a)
			}
			fr.panicking = true
			fr.panic = r
		}
	}()
	call(fr.i, fr, d.instr.Pos(), d.fn, d.args)
	ok = true
}

// runDefers executes fr's deferred function calls in LIFO order.
func (fr *frame) runDefers() {
	for d := fr.defers; d != nil; d = d.tail {
		fr.runDefer(d)
	}
	fr.defers = nil
	if fr.panicking {
		panic(fr.panic) // new panic, or still panicking
	}
}

// lookupMethod returns the method set for type typ, which may be one
// of the interpreter's fake types.
func lookupMethod(i *interpreter, typ types.Type, meth *types.Func) *ssa.Function {
	switch typ {
	case rtypeType:
		return i.rtypeMethods[meth.Name()]
	case errorType:
		return i.errorMethods[meth.Id()]
	}
	return i.prog.LookupMethod(typ, meth.Pkg(), meth.Name())
}

// visitInstr interprets a single ssa.Instruction within the activation
// record frame.  It returns a continuation value indicating where to
// read the next instruction from.
func visitInstr(fr *frame, instr ssa.Instruction) continuation {
	switch instr := instr.(type) {
	case *ssa.DebugRef:
		// no-op

	case *ssa.UnOp:
		fr.env[instr] = unop(fr, instr, fr.get(instr.X))

	case *ssa.BinOp:
		fr.env[instr] = binop(fr, instr.Op, instr.X.Type(), fr.get(instr.X), fr.get(instr.Y))

	case *ssa.Call:
		fn, args := prepareCall(fr, &instr.Call)
		fr.env[instr] = call(fr.i, fr, instr.Pos(), fn, args)

	case *ssa.ChangeInterface:
		fr.env[instr] = fr.get(instr.X)

	case *ssa.ChangeType:
		fr.env[instr] = fr.get(instr.X) // (can't fail)

	case *ssa.Convert:
		fr.env[instr] = conv(fr, instr.Type(), instr.X.Type(), fr.get(instr.X))

	case *ssa.SliceToArrayPointer:
		fr.env[instr] = sliceToArrayPointer(fr, instr.Type(), instr.X.Type(), fr.get(instr.X))

	case *ssa.MakeInterface:
		fr.env[instr] = iface{t: instr.X.Type(), v: fr.get(instr.X)}

	case *ssa.Extract:
		fr.env[instr] = fr.get(instr.Tuple).(tuple)[instr.Index]

	case *ssa.Slice:
		fr.env[instr] = slice(fr, fr.get(instr.X), fr.get(instr.Low), fr.get(instr.High), fr.get(instr.Max))

	case *ssa.Return:
		switch len(instr.Results) {
		case 0:
		case 1:
			fr.result = fr.get(instr.Results[0])
		default:
			var res []value
			for _, r := range instr.Results {
				res = append(res, fr.get(r))
			}
			fr.result = tuple(res)
		}
		fr.block = nil
		return kReturn

	case *ssa.RunDefers:
		fr.runDefers()

	case *ssa.Panic:
		panic(targetPanic{fr.get(instr.X)})

	case *ssa.Send:
		fr.i.chanSend(fr, fr.get(instr.Chan).(*channel), fr.get(instr.X))

	case *ssa.Store:
		addr := fr.get(instr.Addr).(*value)
		if addr == nil {
			panic(fr.i.rtPanic("invalid memory address or nil pointer dereference"))
		}
		fr.i.noteWrite(fr, addr)
		store(mustDeref(instr.Addr.Type()), addr, fr.get(instr.Val))

	case *ssa.If:
		succ := 1
		if fr.i.truthIf(fr, instr, fr.get(instr.Cond)) {
			succ = 0
		}
		fr.prevBlock, fr.block = fr.block, fr.block.Succs[succ]
		return kJump

	case *ssa.Jump:
		fr.prevBlock, fr.block = fr.block, fr.block.Succs[0]
		return kJump

	case *ssa.Defer:
		fn, args := prepareCall(fr, &instr.Call)
		defers := &fr.defers
		if into := fr.get(instr.DeferStack); into != nil {
			defers = into.(**deferred)
		}
		*defers = &deferred{
			fn:    fn,
			args:  args,
			instr: instr,
			tail:  *defers,
		}

	case *ssa.Go:
		fn, args := prepareCall(fr, &instr.Call)
		fr.i.spawn(fr, instr, fn, args)

	case *ssa.MakeChan:
		fr.env[instr] = fr.i.makeChan(int(fr.asInt(fr.get(instr.Size))))

	case *ssa.Alloc:
		var addr *value
		if instr.Heap {
			// new
			addr = new(value)
			fr.env[instr] = addr
		} else {
			// local
			addr = fr.env[instr].(*value)
		}
		*addr = zero(mustDeref(instr.Type()))

	case *ssa.MakeSlice:
		c := fr.asInt(fr.get(instr.Cap))
		l := fr.asInt(fr.get(instr.Len))
		if l < 0 || c < l || c > 1<<24 {
			panic(fr.i.rtPanic("makeslice: len out of range"))
		}
		slice := make([]value, c)
		tElt := instr.Type().Underlying().(*types.Slice).Elem()
		for i := range slice {
			slice[i] = zero(tElt)
		}
		fr.env[instr] = slice[:l]

	case *ssa.MakeMap:
		fr.env[instr] = makeMap(instr.Type().Underlying().(*types.Map).Key())

	case *ssa.Range:
		fr.env[instr] = rangeIter(fr, fr.get(instr.X), instr.X.Type())

	case *ssa.Next:
		fr.env[instr] = fr.get(instr.Iter).(iter).next(fr)

	case *ssa.FieldAddr:
		p := fr.get(instr.X).(*value)
		if p == nil {
			panic(fr.i.rtPanic("invalid memory address or nil pointer dereference"))
		}
		fr.env[instr] = &(*p).(structure)[instr.Field]

	case *ssa.Field:
		fr.env[instr] = fr.get(instr.X).(structure)[instr.Field]

	case *ssa.IndexAddr:
		x := fr.get(instr.X)
		idx := fr.get(instr.Index)
		var elems []value
		switch x := x.(type) {
		case []value:
			elems = x
		case *value: // *array
			if x == nil {
				panic(fr.i.rtPanic("invalid memory address or nil pointer dereference"))
			}
			elems = (*x).(array)
		default:
			panic(fmt.Sprintf("unexpected x type in IndexAddr: %T", x))
		}
		if sidx, ok := idx.(sym); ok {
			fr.env[instr] = fr.i.symIndexAddr(fr, instr, elems, sidx)
			break
		}
		k := asInt64c(idx)
		if k < 0 || k >= int64(len(elems)) {
			panic(fr.i.rtPanic(fmt.Sprintf("index out of range [%d] with length %d", k, len(elems))))
		}
		fr.env[instr] = &elems[k]

	case *ssa.Index:
		x := fr.get(instr.X)
		idx := fr.get(instr.Index)
		var elems []value
		switch x := x.(type) {
		case array:
			elems = x
		case string:
			if _, ok := idx.(sym); !ok {
				k := asInt64c(idx)
				if k < 0 || k >= int64(len(x)) {
					panic(fr.i.rtPanic(fmt.Sprintf("index out of range [%d] with length %d", k, len(x))))
				}
				fr.env[instr] = x[k]
				return kNext
			}
			elems = strElems(x)
		case symstr:
			elems = x
		default:
			panic(fmt.Sprintf("unexpected x type in Index: %T", x))
		}
		if sidx, ok := idx.(sym); ok {
			fr.env[instr] = fr.i.symIndex(fr, elems, sidx)
			break
		}
		k := asInt64c(idx)
		if k < 0 || k >= int64(len(elems)) {
			panic(fr.i.rtPanic(fmt.Sprintf("index out of range [%d] with length %d", k, len(elems))))
		}
		fr.env[instr] = copyVal(elems[k])

	case *ssa.Lookup:
		fr.env[instr] = lookup(fr, instr, fr.get(instr.X), fr.get(instr.Index))

	case *ssa.MapUpdate:
		m := fr.get(instr.Map)
		key := fr.get(instr.Key)
		v := fr.get(instr.Value)
		switch m := m.(type) {
		case *omap:
			fr.i.noteMapWrite(fr, m)
			m.insert(fr, key, copyVal(v))
		default:
			panic(fmt.Sprintf("illegal map type: %T", m))
		}

	case *ssa.TypeAssert:
		fr.env[instr] = typeAssert(fr.i, instr, fr.get(instr.X).(iface))

	case *ssa.MakeClosure:
		var bindings []value
		for _, binding := range instr.Bindings {
			bindings = append(bindings, fr.get(binding))
		}
		fr.env[instr] = &closure{instr.Fn.(*ssa.Function), bindings}

	case *ssa.Phi:
		panic("unreachable: phis are processed at block entry")

	case *ssa.Select:
		fr.env[instr] = fr.i.selectOp(fr, instr)

	default:
		panic(fmt.Sprintf("unexpected instruction: %T", instr))
	}

	return kNext
}

// prepareCall determines the function value and argument values for a
// function call in a Call, Go or Defer instruction, performing
// interface method lookup if needed.
func prepareCall(fr *frame, call *ssa.CallCommon) (fn value, args []value) {
	v := fr.get(call.Value)
	if call.Method == nil {
		// Function call.
		fn = v
	} else {
		// Interface method invocation.
		recv := v.(iface)
		if recv.t == nil {
			panic(fr.i.rtPanic("invalid memory address or nil pointer dereference"))
		}
		if f := lookupMethod(fr.i, recv.t, call.Method); f == nil {
			// Unreachable in well-typed programs.
			panic(fmt.Sprintf("method set for dynamic type %v does not contain %s", recv.t, call.Method))
		} else {
			fn = f
		}
		args = append(args, recv.v)
	}
	for _, arg := range call.Args {
		args = append(args, fr.get(arg))
	}
	return
}

// call interprets a call to a function (function, builtin or closure)
// fn with arguments args, returning its result.
// callpos is the position of the callsite.
func call(i *interpreter, caller *frame, callpos token.Pos, fn value, args []value) value {
	switch fn := fn.(type) {
	case *ssa.Function:
		if fn == nil {
			panic(i.rtPanic("invalid memory address or nil pointer dereference")) // nil of func type
		}
		return callSSA(i, caller, callpos, fn, args, nil)
	case *closure:
		return callSSA(i, caller, callpos, fn.Fn, args, fn.Env)
	case *ssa.Builtin:
		return callBuiltin(caller, callpos, fn, args)
	case *nativeFunc:
		return fn.fn(caller, args)
	}
	panic(fmt.Sprintf("cannot call %T", fn))
}

// messageOnlyCaller: packages whose fmt calls only ever build message text.
func messageOnlyCaller(fr *frame) bool {
	if fr == nil || fr.fn == nil {
		return false
	}
	f := fr.fn
	for f.Parent() != nil {
		f = f.Parent()
	}
	if f.Pkg == nil {
		if o := f.Origin(); o != nil && o.Pkg != nil {
			f = o
		} else {
			return false
		}
	}
	switch f.Pkg.Pkg.Path() {
	case "github.com/go-openapi/errors", "github.com/go-openapi/validate":
		return true
	}
	return false
}

// underTest reports whether the frame executes code of the repository under test.
func (i *interpreter) underTest(fr *frame) bool {
	if fr == nil || fr.fn == nil {
		return true
	}
	f := fr.fn
	for f.Parent() != nil {
		f = f.Parent()
	}
	if f.Pkg == nil {
		if o := f.Origin(); o != nil && o.Pkg != nil {
			f = o
		} else {
			return true
		}
	}
	path := f.Pkg.Pkg.Path()
	for _, p := range i.cfg.VolatilePrefix {
		if strings.HasPrefix(path, p) {
			return true
		}
	}
	return false
}

func loc(fset *token.FileSet, pos token.Pos) string {
	if pos == token.NoPos {
		return ""
	}
	return " at " + fset.Position(pos).String()
}

// callSSA interprets a call to function fn with arguments args,
// and lexical environment env, returning its result.
// callpos is the position of the callsite.
func callSSA(i *interpreter, caller *frame, callpos token.Pos, fn *ssa.Function, args []value, env []value) value {
	if i.cfg.Trace {
		fset := fn.Prog.Fset
		fmt.Fprintf(os.Stderr, "%*sEntering %s%s.\n", i.depth, "", fn, loc(fset, fn.Pos()))
		defer fmt.Fprintf(os.Stderr, "%*sLeaving %s.\n", i.depth, "", fn)
	}
	fr := &frame{
		i:      i,
		caller: caller, // for panic/recover
		fn:     fn,
	}
	i.called[fn]++
	if i.p != nil && i.p.stubs != nil && fn.Parent() == nil {
		if st, ok := i.p.stubs[fn.String()]; ok {
			return call(i, caller, callpos, st, args)
		}
	}
	if fn.Parent() == nil && fn.Pkg != nil && fn.Pkg.Pkg.Path() == "fmt" && fmtEntry[fn.Name()] && fn.Signature.Recv() == nil && (fn.Name() == "Errorf" || messageOnlyCaller(caller)) {
		// error values, and message text built by the error/validation
		// dependencies; every other use of fmt (header values, multipart part
		// headers, …) is interpreted faithfully
		args = sanitizeFmtArgs(args)
	}
	if fn.Parent() == nil {
		if ext := findExternal(fn); ext != nil {
			return ext(fr, args)
		}
		if fn.Blocks == nil {
			panic(unsupported("no code for function: " + fn.String()))
		}
		if fn.Synthetic == "package initializer" && caller != nil {
			// nested initializer call from another package's init: lazy instead
			return nil
		}
	}

	// generic function body?
	if fn.TypeParams().Len() > 0 && len(fn.TypeArgs()) == 0 {
		panic("interp requires ssa.BuilderMode to include InstantiateGenerics to execute generics")
	}
	i.depth++
	if i.depth > i.cfg.MaxCallDepth {
		panic(abortPath{"bound", "call depth exceeded in " + fn.String()})
	}
	defer func() { i.depth-- }()

	fr.env = make(map[ssa.Value]value)
	fr.block = fn.Blocks[0]
	fr.locals = make([]value, len(fn.Locals))
	for i, l := range fn.Locals {
		fr.locals[i] = zero(mustDeref(l.Type()))
		fr.env[l] = &fr.locals[i]
	}
	for i, p := range fn.Params {
		fr.env[p] = args[i]
	}
	for i, fv := range fn.FreeVars {
		fr.env[fv] = env[i]
	}
	for fr.block != nil {
		runFrame(fr)
	}
	return fr.result
}

// runFrame executes SSA instructions starting at fr.block and
// continuing until a return, a panic, or a recovered panic.
func runFrame(fr *frame) {
	defer func() {
		if fr.block == nil {
			return // normal return
		}
		r := recover()
		if a, ok := r.(abortPath); ok {
			if (a.kind == "bound" || a.kind == "unsupported") && !strings.Contains(a.msg, " @ ") {
				a.msg += " @ " + fr.fn.String() + loc(fr.fn.Prog.Fset, curPos(fr))
				for c, n := fr.caller, 0; c != nil && n < 8; c, n = c.caller, n+1 {
					a.msg += " < " + c.fn.String() + loc(fr.fn.Prog.Fset, curPos(c))
				}
			}
			panic(a) // engine-level abort: not visible to the target
		}
		if s, ok := r.(string); ok && !strings.HasPrefix(s, "runtime error") {
			// interpreter-internal inconsistency: surface as engine fault
			panic(abortPath{"unsupported", "interpreter panic: " + s + " in " + fr.fn.String()})
		}
		if re, ok := r.(runtime.Error); ok && strings.Contains(re.Error(), "integer divide by zero") {
			r = fr.i.rtPanic("integer divide by zero")
		} else if ok {
			// host runtime error raised while interpreting: report as an
			// engine fault unless it is one the stock interpreter maps to
			// target semantics (nil map write etc. are raised explicitly).
			panic(abortPath{"unsupported", "host runtime error: " + re.Error() + " in " + fr.fn.String() + loc(fr.fn.Prog.Fset, curPos(fr))})
		}
		fr.panicking = true
		fr.panic = r
		if _, isTarget := r.(targetPanic); isTarget && fr.i.p != nil && !fr.i.p.panicNoted {
			fr.i.p.panicNoted = true
			fr.i.p.panicLoc = fr.fn.String() + loc(fr.fn.Prog.Fset, curPos(fr))
		}
		if fr.i.cfg.Trace {
			fmt.Fprintf(os.Stderr, "Panicking: %T %v.\n", fr.panic, fr.panic)
		}
		fr.runDefers()
		fr.block = fr.fn.Recover
	}()

	p := fr.i.p
	for {
		nonPhis := executePhis(fr)
		for _, instr := range nonPhis {
			p.steps++
			if p.steps > fr.i.cfg.MaxSteps {
				panic(abortPath{"bound", "instruction budget exceeded in " + fr.fn.String()})
			}
			if fr.i.cfg.Trace {
				if v, ok := instr.(ssa.Value); ok {
					fmt.Fprintln(os.Stderr, "\t", v.Name(), "=", instr)
				} else {
					fmt.Fprintln(os.Stderr, "\t", instr)
				}
			}
			fr.curInstr = instr
			if visitInstr(fr, instr) == kReturn {
				return
			}
			// Inv: kNext (continue) or kJump (last instr)
		}
	}
}

func curPos(fr *frame) token.Pos {
	if fr.curInstr != nil {
		return fr.curInstr.Pos()
	}
	return token.NoPos
}

// executePhis executes the phi-nodes at the start of the current
// block and returns the non-phi instructions.
func executePhis(fr *frame) []ssa.Instruction {
	firstNonPhi := -1
	for i, instr := range fr.block.Instrs {
		if _, ok := instr.(*ssa.Phi); !ok {
			firstNonPhi = i
			break
		}
	}
	// Inv: 0 <= firstNonPhi; every block contains a non-phi.

	nonPhis := fr.block.Instrs[firstNonPhi:]
	if firstNonPhi > 0 {
		phis := fr.block.Instrs[:firstNonPhi]
		predIndex := slices.Index(fr.block.Preds, fr.prevBlock)
		fr.phitemps = fr.phitemps[:0]
		for _, phi := range phis {
			phi := phi.(*ssa.Phi)
			fr.phitemps = append(fr.phitemps, fr.get(phi.Edges[predIndex]))
		}
		for i, phi := range phis {
			fr.env[phi.(*ssa.Phi)] = fr.phitemps[i]
		}
	}
	return nonPhis
}

// doRecover implements the recover() built-in.
func doRecover(caller *frame) value {
	if caller != nil && caller.i.p != nil {
		caller.i.p.panicNoted = false
	}
	// recover() must be exactly one level beneath the deferred
	// function (two levels beneath the panicking function) to
	// have any effect.  Thus we ignore both "defer recover()" and
	// "defer f() -> g() -> recover()".
	if caller != nil && !caller.panicking &&
		caller.caller != nil && caller.caller.panicking {
		caller.caller.panicking = false
		p := caller.caller.panic
		caller.caller.panic = nil

		switch p := p.(type) {
		case targetPanic:
			// The target program explicitly called panic().
			return p.v
		case runtime.Error:
			// The interpreter encountered a runtime error.
			return iface{caller.i.runtimeErrorString, p.Error()}
		case string:
			// The interpreter explicitly called panic().
			return iface{caller.i.runtimeErrorString, p}
		default:
			panic(fmt.Sprintf("unexpected panic type %T in target call to recover()", p))
		}
	}
	return iface{}
}

// lookupFunc finds a package-level function by package path and name.
func (i *interpreter) lookupFunc(pkgPath, name string) *ssa.Function {
	key := pkgPath + "." + name
	if f, ok := i.funcCache[key]; ok {
		return f
	}
	for _, p := range i.prog.AllPackages() {
		if p.Pkg.Path() == pkgPath {
			f := p.Func(name)
			i.funcCache[key] = f
			return f
		}
	}
	panic(unsupported("function not in program: " + key))
}

// newInterpreter creates the per-worker interpreter state.
func newInterpreter(prog *ssa.Program, cfg *Config) (*interpreter, error) {
	i := &interpreter{
		prog:       prog,
		globals:    make(map[*ssa.Global]*value),
		pkgInit:    make(map[*ssa.Package]int),
		cfg:        cfg,
		sizes:      &types.StdSizes{WordSize: 8, MaxAlign: 8},
		funcCache:  make(map[string]*ssa.Function),
		called:     make(map[*ssa.Function]int),
		tb:         smt.NewTable(),
		tabCache:   map[string][]uint64{},
		setupCache: map[string]value{},
		varMemo:    map[int]*smt.Term{},
		stubbed:    map[string]bool{},
	}
	runtimePkg := prog.ImportedPackage("runtime")
	if runtimePkg == nil {
		return nil, fmt.Errorf("ssa.Program doesn't include runtime package")
	}
	i.runtimeErrorString = runtimePkg.Type("errorString").Object().Type()
	initReflect(i)
	sess, err := smt.NewSession(i.tb, cfg.SolverArgv, cfg.QueryTimeoutMs)
	if err != nil {
		return nil, err
	}
	i.sess = sess
	return i, nil
}

func (i *interpreter) isVolatile(pkg *ssa.Package) bool {
	path := pkg.Pkg.Path()
	for _, pre := range i.cfg.VolatilePrefix {
		if strings.HasPrefix(path, pre) {
			return true
		}
	}
	return false
}

// resetVolatile forgets the globals of volatile packages so that they are
// re-initialised on the next path.
func (i *interpreter) resetVolatile() {
	for pkg, st := range i.pkgInit {
		if st != 0 && i.isVolatile(pkg) {
			delete(i.pkgInit, pkg)
			for _, m := range pkg.Members {
				if g, ok := m.(*ssa.Global); ok {
					delete(i.globals, g)
				}
			}
		}
	}
}
