// Copyright 2013 The Go Authors. All rights reserved.
// Use of this source code is governed by a BSD-style
// license that can be found in the LICENSE file.

package interp

// Model of the "reflect" and "internal/reflectlite" packages.
//
// reflect.Type is implemented by the engine type rtype (a go/types type);
// reflect.Value is the opaque engine object *rvalue. None of the real
// package's bodies is interpreted: a call to a reflect function without a
// model aborts the path as UNSUPPORTED.

import (
	"fmt"
	"go/token"
	"go/types"
	"reflect"
	"sync"

	"golang.org/x/tools/go/ssa"
)

type opaqueType struct {
	types.Type
	name string
}

func (t *opaqueType) String() string { return t.name }

// A bogus "reflect" type-checker package.  Shared across interpreters.
var reflectTypesPackage = types.NewPackage("reflect", "reflect")

// rtype is the concrete type the interpreter uses to implement the
// reflect.Type interface.
var rtypeType = makeNamedType("rtype", &opaqueType{nil, "rtype"})

// error is an (interpreted) named type whose underlying type is string.
var errorType = makeNamedType("error", &opaqueType{nil, "error"})

func makeNamedType(name string, underlying types.Type) *types.Named {
	obj := types.NewTypeName(token.NoPos, reflectTypesPackage, name, nil)
	return types.NewNamed(obj, underlying, nil)
}

// makeReflectType boxes up an rtype in a reflect.Type interface.
func makeReflectType(rt rtype) value {
	return iface{rtypeType, rt}
}

func reflectKind(t types.Type) reflect.Kind {
	switch t := t.(type) {
	case *types.Named, *types.Alias:
		return reflectKind(t.Underlying())
	case *types.Basic:
		switch t.Kind() {
		case types.Bool:
			return reflect.Bool
		case types.Int:
			return reflect.Int
		case types.Int8:
			return reflect.Int8
		case types.Int16:
			return reflect.Int16
		case types.Int32:
			return reflect.Int32
		case types.Int64:
			return reflect.Int64
		case types.Uint:
			return reflect.Uint
		case types.Uint8:
			return reflect.Uint8
		case types.Uint16:
			return reflect.Uint16
		case types.Uint32:
			return reflect.Uint32
		case types.Uint64:
			return reflect.Uint64
		case types.Uintptr:
			return reflect.Uintptr
		case types.Float32:
			return reflect.Float32
		case types.Float64:
			return reflect.Float64
		case types.Complex64:
			return reflect.Complex64
		case types.Complex128:
			return reflect.Complex128
		case types.String:
			return reflect.String
		case types.UnsafePointer:
			return reflect.UnsafePointer
		}
	case *types.Array:
		return reflect.Array
	case *types.Chan:
		return reflect.Chan
	case *types.Signature:
		return reflect.Func
	case *types.Interface:
		return reflect.Interface
	case *types.Map:
		return reflect.Map
	case *types.Pointer:
		return reflect.Ptr
	case *types.Slice:
		return reflect.Slice
	case *types.Struct:
		return reflect.Struct
	}
	panic(fmt.Sprint("unexpected type: ", t))
}

// newMethod creates a new method of the specified name, package and receiver type.
func newMethod(pkg *ssa.Package, recvType types.Type, name string) *ssa.Function {
	sig := types.NewSignature(types.NewVar(token.NoPos, nil, "recv", recvType), nil, nil, false)
	fn := pkg.Prog.NewFunction(name, sig, "fake reflect method")
	fn.Pkg = pkg
	return fn
}

type reflectShared struct {
	pkg          *ssa.Package
	rtypeMethods methodSet
	errorMethods methodSet
}

var (
	reflectOnce   sync.Mutex
	reflectByProg = map[*ssa.Program]*reflectShared{}
)

var rtypeMethodNames = []string{
	"Align", "AssignableTo", "Bits", "ChanDir", "Comparable", "ConvertibleTo", "Elem", "Field",
	"FieldAlign", "FieldByName", "Implements", "In", "IsVariadic", "Key", "Kind", "Len", "Method",
	"MethodByName", "Name", "NumField", "NumIn", "NumMethod", "NumOut", "Out", "PkgPath", "Size",
	"String",
}

func initReflect(i *interpreter) {
	reflectOnce.Lock()
	defer reflectOnce.Unlock()
	sh := reflectByProg[i.prog]
	if sh == nil {
		sh = &reflectShared{}
		sh.pkg = &ssa.Package{
			Prog:    i.prog,
			Pkg:     reflectTypesPackage,
			Members: make(map[string]ssa.Member),
		}
		sh.rtypeMethods = methodSet{}
		for _, n := range rtypeMethodNames {
			sh.rtypeMethods[n] = newMethod(sh.pkg, rtypeType, n)
		}
		sh.errorMethods = methodSet{
			"Error": newMethod(sh.pkg, errorType, "Error"),
		}
		reflectByProg[i.prog] = sh
	}
	i.rtypeMethods = sh.rtypeMethods
	i.errorMethods = sh.errorMethods
}

// isReflectValueType reports whether t is reflect.Value (or reflectlite.Value).
func isReflectValueType(t types.Type) bool {
	n, ok := t.(*types.Named)
	if !ok {
		return false
	}
	o := n.Obj()
	if o.Name() != "Value" || o.Pkg() == nil {
		return false
	}
	p := o.Pkg().Path()
	return p == "reflect" || p == "internal/reflectlite"
}

// rvalue is the engine's reflect.Value.
type rvalue struct {
	t    types.Type // nil: the zero (invalid) Value
	addr *value     // variable referred to (addressable / settable), or nil
	v    value      // the value when not addressable
	ro   bool       // obtained via unexported field
}
