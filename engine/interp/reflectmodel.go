package interp

// The reflect model: reflect.Value = *rvalue, reflect.Type = rtype.

import (
	"fmt"
	"go/token"
	"go/types"
	"reflect"
	"strings"
)

func (i *interpreter) reflPanic(msg string) targetPanic {
	return targetPanic{iface{types.Typ[types.String], msg}}
}

func rv(v value) *rvalue {
	r, _ := v.(*rvalue)
	return r
}

func (r *rvalue) get() value {
	if r.addr != nil {
		return load(r.t, r.addr)
	}
	return r.v
}

func (r *rvalue) kind() reflect.Kind {
	if r == nil || r.t == nil {
		return reflect.Invalid
	}
	return reflectKind(r.t)
}

func (i *interpreter) mustKind(r *rvalue, op string, ks ...reflect.Kind) {
	k := r.kind()
	for _, want := range ks {
		if k == want {
			return
		}
	}
	panic(i.reflPanic(fmt.Sprintf("reflect: call of reflect.Value.%s on %s Value", op, kindName(r))))
}

func kindName(r *rvalue) string {
	if r == nil || r.t == nil {
		return "zero"
	}
	return reflectKind(r.t).String()
}

func typeOfArg(v value) types.Type {
	it := v.(iface)
	if it.t == nil {
		return nil
	}
	return it.v.(rtype).t
}

func valueOfIface(it iface) *rvalue {
	if it.t == nil {
		return nil
	}
	return &rvalue{t: it.t, v: it.v}
}

func (i *interpreter) assignable(from, to types.Type) bool {
	if types.Identical(from, to) {
		return true
	}
	return types.AssignableTo(from, to)
}

// boxFor converts a value of dynamic type from for storage in a variable of
// type to (wrapping into an interface when needed).
func boxFor(v value, from, to types.Type) value {
	if _, isIface := to.Underlying().(*types.Interface); isIface {
		if _, fromIface := from.Underlying().(*types.Interface); !fromIface {
			return iface{from, v}
		}
	}
	return v
}

func (i *interpreter) rvSet(r *rvalue, op string) {
	if r == nil || r.t == nil {
		panic(i.reflPanic("reflect: call of reflect.Value." + op + " on zero Value"))
	}
	if r.addr == nil {
		panic(i.reflPanic("reflect: reflect.Value." + op + " using unaddressable value"))
	}
	if r.ro {
		panic(i.reflPanic("reflect: reflect.Value." + op + " using value obtained using unexported field"))
	}
}

func basicKindOf(t types.Type) types.BasicKind {
	return t.Underlying().(*types.Basic).Kind()
}

func init() {
	R := func(names []string, f externalFn) {
		for _, n := range names {
			externals[n] = f
		}
	}
	both := func(n string) []string { return []string{"reflect." + n, "internal/reflectlite." + n} }
	meth := func(n string) []string {
		return []string{"(reflect.Value)." + n, "(internal/reflectlite.Value)." + n}
	}

	R(both("TypeOf"), func(fr *frame, a []value) value {
		it := a[0].(iface)
		if it.t == nil {
			return iface{}
		}
		return makeReflectType(rtype{it.t})
	})
	R(both("ValueOf"), func(fr *frame, a []value) value {
		return valueOfIface(a[0].(iface))
	})
	R([]string{"reflect.Indirect"}, func(fr *frame, a []value) value {
		r := rv(a[0])
		if r.kind() != reflect.Ptr {
			return r
		}
		return fr.i.rvElem(r)
	})
	R([]string{"reflect.New"}, func(fr *frame, a []value) value {
		t := typeOfArg(a[0])
		cell := zero(t)
		return &rvalue{t: types.NewPointer(t), v: &cell}
	})
	R([]string{"reflect.Zero"}, func(fr *frame, a []value) value {
		t := typeOfArg(a[0])
		return &rvalue{t: t, v: zero(t)}
	})
	R([]string{"reflect.SliceOf"}, func(fr *frame, a []value) value {
		return makeReflectType(rtype{types.NewSlice(typeOfArg(a[0]))})
	})
	R([]string{"reflect.PtrTo", "reflect.PointerTo"}, func(fr *frame, a []value) value {
		return makeReflectType(rtype{types.NewPointer(typeOfArg(a[0]))})
	})
	R([]string{"reflect.MakeSlice"}, func(fr *frame, a []value) value {
		t := typeOfArg(a[0])
		st, ok := t.Underlying().(*types.Slice)
		if !ok {
			panic(fr.i.reflPanic("reflect.MakeSlice of non-slice type"))
		}
		l, c := fr.asInt(a[1]), fr.asInt(a[2])
		if l < 0 || c < l {
			panic(fr.i.reflPanic("reflect.MakeSlice: len > cap or negative len"))
		}
		s := make([]value, c)
		for k := range s {
			s[k] = zero(st.Elem())
		}
		return &rvalue{t: t, v: s[:l]}
	})
	R([]string{"reflect.MakeMap", "reflect.MakeMapWithSize"}, func(fr *frame, a []value) value {
		t := typeOfArg(a[0])
		return &rvalue{t: t, v: makeMap(t.Underlying().(*types.Map).Key())}
	})
	R([]string{"reflect.Copy"}, func(fr *frame, a []value) value {
		d, s := rv(a[0]), rv(a[1])
		fr.i.mustKind(d, "Copy", reflect.Slice, reflect.Array)
		var dst []value
		if d.kind() == reflect.Array {
			fr.i.rvSet(d, "Copy")
			dst = (*d.addr).(array)
		} else {
			dst = d.get().([]value)
		}
		var src []value
		switch sv := s.get().(type) {
		case []value:
			src = sv
		case array:
			src = sv
		case string, symstr:
			src = strElems(sv)
		default:
			panic(fr.i.reflPanic("reflect.Copy: bad source"))
		}
		n := len(dst)
		if len(src) < n {
			n = len(src)
		}
		tmp := make([]value, n)
		for k := 0; k < n; k++ {
			tmp[k] = copyVal(src[k])
		}
		copy(dst, tmp)
		return n
	})
	R([]string{"reflect.Append"}, func(fr *frame, a []value) value {
		s := rv(a[0])
		fr.i.mustKind(s, "Append", reflect.Slice)
		et := s.t.Underlying().(*types.Slice).Elem()
		cur := s.get().([]value)
		for _, x := range a[1].([]value) {
			xr := rv(x)
			if !fr.i.assignable(xr.t, et) {
				panic(fr.i.reflPanic(fmt.Sprintf("reflect.Set: value of type %s is not assignable to type %s", xr.t, et)))
			}
			cur = append(cur, boxFor(copyVal(xr.get()), xr.t, et))
		}
		return &rvalue{t: s.t, v: cur}
	})
	R([]string{"reflect.AppendSlice"}, func(fr *frame, a []value) value {
		s, t := rv(a[0]), rv(a[1])
		fr.i.mustKind(s, "AppendSlice", reflect.Slice)
		cur := s.get().([]value)
		for _, x := range t.get().([]value) {
			cur = append(cur, copyVal(x))
		}
		return &rvalue{t: s.t, v: cur}
	})
	R([]string{"reflect.DeepEqual"}, func(fr *frame, a []value) value {
		return fr.i.deepEqual(fr, a[0], a[1], 0)
	})
	R([]string{"internal/reflectlite.Swapper", "reflect.Swapper"}, func(fr *frame, a []value) value {
		it := a[0].(iface)
		s, ok := it.v.([]value)
		if !ok {
			panic(fr.i.reflPanic("reflect: call of Swapper on non-slice"))
		}
		return &nativeFunc{name: "swapper", fn: func(fr *frame, args []value) value {
			x, y := fr.asInt(args[0]), fr.asInt(args[1])
			s[x], s[y] = s[y], s[x]
			return nil
		}}
	})

	// ---- Value methods ----
	R(meth("IsValid"), func(fr *frame, a []value) value { r := rv(a[0]); return r != nil && r.t != nil })
	R(meth("Kind"), func(fr *frame, a []value) value { return uint(rv(a[0]).kind()) })
	R(meth("Type"), func(fr *frame, a []value) value {
		r := rv(a[0])
		if r == nil || r.t == nil {
			panic(fr.i.reflPanic("reflect: call of reflect.Value.Type on zero Value"))
		}
		return makeReflectType(rtype{r.t})
	})
	R(meth("CanSet"), func(fr *frame, a []value) value { r := rv(a[0]); return r != nil && r.addr != nil && !r.ro })
	R(meth("CanAddr"), func(fr *frame, a []value) value { r := rv(a[0]); return r != nil && r.addr != nil })
	R(meth("CanInterface"), func(fr *frame, a []value) value { r := rv(a[0]); return r != nil && !r.ro })
	R(meth("Addr"), func(fr *frame, a []value) value {
		r := rv(a[0])
		if r == nil || r.addr == nil {
			panic(fr.i.reflPanic("reflect.Value.Addr of unaddressable value"))
		}
		return &rvalue{t: types.NewPointer(r.t), v: r.addr}
	})
	R(meth("Elem"), func(fr *frame, a []value) value { return fr.i.rvElem(rv(a[0])) })
	R(meth("Interface"), func(fr *frame, a []value) value {
		r := rv(a[0])
		if r == nil || r.t == nil {
			panic(fr.i.reflPanic("reflect: call of reflect.Value.Interface on zero Value"))
		}
		v := copyVal(r.get())
		if _, ok := r.t.Underlying().(*types.Interface); ok {
			return v // already an iface
		}
		return iface{r.t, v}
	})
	R(meth("IsNil"), func(fr *frame, a []value) value {
		r := rv(a[0])
		switch v := r.get().(type) {
		case *value:
			return v == nil
		case *omap:
			return v == nil
		case []value:
			return v == nil
		case iface:
			return v.t == nil
		case *channel:
			return v == nil
		case *closure:
			return v == nil
		case uptr:
			return v.v == nil
		}
		if f, ok := r.get().(interface{ Name() string }); ok {
			_ = f
			return false
		}
		panic(fr.i.reflPanic("reflect: call of reflect.Value.IsNil on " + kindName(r) + " Value"))
	})
	R(meth("IsZero"), func(fr *frame, a []value) value {
		r := rv(a[0])
		return fr.i.deepEqual(fr, iface{r.t, r.get()}, iface{r.t, zero(r.t)}, 0)
	})
	R(meth("Len"), func(fr *frame, a []value) value {
		r := rv(a[0])
		switch v := r.get().(type) {
		case string:
			return len(v)
		case symstr:
			return len(v)
		case []value:
			return len(v)
		case array:
			return len(v)
		case *omap:
			return v.len()
		case *channel:
			return v.len()
		}
		panic(fr.i.reflPanic("reflect: call of reflect.Value.Len on " + kindName(r) + " Value"))
	})
	R(meth("Cap"), func(fr *frame, a []value) value {
		r := rv(a[0])
		switch v := r.get().(type) {
		case []value:
			return cap(v)
		case array:
			return len(v)
		}
		panic(fr.i.reflPanic("reflect: call of reflect.Value.Cap on " + kindName(r) + " Value"))
	})
	R(meth("Index"), func(fr *frame, a []value) value {
		r := rv(a[0])
		k := fr.asInt(a[1])
		switch r.kind() {
		case reflect.Slice:
			s := r.get().([]value)
			if k < 0 || k >= int64(len(s)) {
				panic(fr.i.reflPanic("reflect: slice index out of range"))
			}
			return &rvalue{t: r.t.Underlying().(*types.Slice).Elem(), addr: &s[k], ro: r.ro}
		case reflect.Array:
			et := r.t.Underlying().(*types.Array).Elem()
			if r.addr != nil {
				arr := (*r.addr).(array)
				if k < 0 || k >= int64(len(arr)) {
					panic(fr.i.reflPanic("reflect: array index out of range"))
				}
				return &rvalue{t: et, addr: &arr[k], ro: r.ro}
			}
			arr := r.v.(array)
			if k < 0 || k >= int64(len(arr)) {
				panic(fr.i.reflPanic("reflect: array index out of range"))
			}
			return &rvalue{t: et, v: arr[k], ro: r.ro}
		case reflect.String:
			s := r.get()
			if k < 0 || k >= int64(strLen(s)) {
				panic(fr.i.reflPanic("reflect: string index out of range"))
			}
			return &rvalue{t: types.Typ[types.Uint8], v: strAt(s, int(k))}
		}
		panic(fr.i.reflPanic("reflect: call of reflect.Value.Index on " + kindName(r) + " Value"))
	})
	R(meth("Slice"), func(fr *frame, a []value) value {
		r := rv(a[0])
		lo, hi := fr.asInt(a[1]), fr.asInt(a[2])
		switch v := r.get().(type) {
		case []value:
			if lo < 0 || hi < lo || hi > int64(cap(v)) {
				panic(fr.i.reflPanic("reflect.Value.Slice: slice index out of bounds"))
			}
			return &rvalue{t: r.t, v: v[lo:hi]}
		case string, symstr:
			if lo < 0 || hi < lo || hi > int64(strLen(v)) {
				panic(fr.i.reflPanic("reflect.Value.Slice: string slice index out of bounds"))
			}
			return &rvalue{t: r.t, v: strSlice(v, int(lo), int(hi))}
		}
		panic(fr.i.reflPanic("reflect: call of reflect.Value.Slice on " + kindName(r) + " Value"))
	})
	R(meth("NumField"), func(fr *frame, a []value) value {
		r := rv(a[0])
		fr.i.mustKind(r, "NumField", reflect.Struct)
		return r.t.Underlying().(*types.Struct).NumFields()
	})
	R(meth("Field"), func(fr *frame, a []value) value {
		r := rv(a[0])
		fr.i.mustKind(r, "Field", reflect.Struct)
		return fr.i.rvField(r, int(fr.asInt(a[1])))
	})
	R(meth("FieldByName"), func(fr *frame, a []value) value {
		r := rv(a[0])
		fr.i.mustKind(r, "FieldByName", reflect.Struct)
		name := goString(a[1])
		st := r.t.Underlying().(*types.Struct)
		for k := 0; k < st.NumFields(); k++ {
			if st.Field(k).Name() == name {
				return fr.i.rvField(r, k)
			}
		}
		return (*rvalue)(nil)
	})
	R(meth("NumMethod"), func(fr *frame, a []value) value {
		r := rv(a[0])
		return fr.i.prog.MethodSets.MethodSet(r.t).Len()
	})
	R(meth("Pointer"), func(fr *frame, a []value) value { return uintptr(0) })
	R(meth("UnsafePointer"), func(fr *frame, a []value) value { return uptr{rv(a[0]).get()} })

	R(meth("Bool"), func(fr *frame, a []value) value {
		r := rv(a[0])
		fr.i.mustKind(r, "Bool", reflect.Bool)
		return r.get()
	})
	R(meth("Int"), func(fr *frame, a []value) value {
		r := rv(a[0])
		fr.i.mustKind(r, "Int", reflect.Int, reflect.Int8, reflect.Int16, reflect.Int32, reflect.Int64)
		return conv(fr, types.Typ[types.Int64], r.t, r.get())
	})
	R(meth("Uint"), func(fr *frame, a []value) value {
		r := rv(a[0])
		fr.i.mustKind(r, "Uint", reflect.Uint, reflect.Uint8, reflect.Uint16, reflect.Uint32, reflect.Uint64, reflect.Uintptr)
		return conv(fr, types.Typ[types.Uint64], r.t, r.get())
	})
	R(meth("Float"), func(fr *frame, a []value) value {
		r := rv(a[0])
		fr.i.mustKind(r, "Float", reflect.Float32, reflect.Float64)
		return conv(fr, types.Typ[types.Float64], r.t, r.get())
	})
	R(meth("String"), func(fr *frame, a []value) value {
		r := rv(a[0])
		if r == nil || r.t == nil {
			return "<invalid Value>"
		}
		if r.kind() == reflect.String {
			return r.get()
		}
		return "<" + r.t.String() + " Value>"
	})
	R(meth("Bytes"), func(fr *frame, a []value) value {
		r := rv(a[0])
		if r.kind() == reflect.Slice {
			if b, ok := r.t.Underlying().(*types.Slice).Elem().Underlying().(*types.Basic); ok && b.Kind() == types.Uint8 {
				return r.get()
			}
		}
		panic(fr.i.reflPanic("reflect.Value.Bytes of non-byte slice"))
	})
	R(meth("Convert"), func(fr *frame, a []value) value {
		r := rv(a[0])
		t := typeOfArg(a[1])
		if types.Identical(r.t, t) {
			return &rvalue{t: t, v: copyVal(r.get())}
		}
		if !types.ConvertibleTo(r.t, t) {
			panic(fr.i.reflPanic(fmt.Sprintf("reflect.Value.Convert: value of type %s cannot be converted to type %s", r.t, t)))
		}
		if _, ok := t.Underlying().(*types.Interface); ok {
			return &rvalue{t: t, v: boxFor(r.get(), r.t, t)}
		}
		if types.Identical(r.t.Underlying(), t.Underlying()) {
			return &rvalue{t: t, v: copyVal(r.get())}
		}
		return &rvalue{t: t, v: conv(fr, t, r.t, r.get())}
	})
	R(meth("OverflowInt"), func(fr *frame, a []value) value {
		r := rv(a[0])
		fr.i.mustKind(r, "OverflowInt", reflect.Int, reflect.Int8, reflect.Int16, reflect.Int32, reflect.Int64)
		k := basicKindOf(r.t)
		tr := conv(fr, types.Typ[types.Int64], types.Typ[k], conv(fr, types.Typ[k], types.Typ[types.Int64], a[1]))
		return binop(fr, token.NEQ, types.Typ[types.Int64], tr, a[1])
	})
	R(meth("OverflowUint"), func(fr *frame, a []value) value {
		r := rv(a[0])
		fr.i.mustKind(r, "OverflowUint", reflect.Uint, reflect.Uint8, reflect.Uint16, reflect.Uint32, reflect.Uint64, reflect.Uintptr)
		k := basicKindOf(r.t)
		tr := conv(fr, types.Typ[types.Uint64], types.Typ[k], conv(fr, types.Typ[k], types.Typ[types.Uint64], a[1]))
		return binop(fr, token.NEQ, types.Typ[types.Uint64], tr, a[1])
	})
	R(meth("OverflowFloat"), func(fr *frame, a []value) value {
		r := rv(a[0])
		fr.i.mustKind(r, "OverflowFloat", reflect.Float32, reflect.Float64)
		if basicKindOf(r.t) == types.Float64 {
			return false
		}
		x, ok := a[1].(float64)
		if !ok {
			panic(unsupported("OverflowFloat on symbolic float"))
		}
		if x < 0 {
			x = -x
		}
		return 3.40282346638528859811704183484516925440e+38 < x && x <= 1.79769313486231570814527423731704356798070e+308
	})

	R(meth("Set"), func(fr *frame, a []value) value {
		r, x := rv(a[0]), rv(a[1])
		fr.i.rvSet(r, "Set")
		if x == nil || x.t == nil {
			panic(fr.i.reflPanic("reflect: call of reflect.Value.Set on zero Value"))
		}
		if !fr.i.assignable(x.t, r.t) {
			panic(fr.i.reflPanic(fmt.Sprintf("reflect.Set: value of type %s is not assignable to type %s", x.t, r.t)))
		}
		fr.i.noteWrite(fr, r.addr)
		store(r.t, r.addr, boxFor(copyVal(x.get()), x.t, r.t))
		return nil
	})
	R(meth("SetBool"), func(fr *frame, a []value) value {
		r := rv(a[0])
		fr.i.rvSet(r, "SetBool")
		fr.i.mustKind(r, "SetBool", reflect.Bool)
		*r.addr = a[1]
		return nil
	})
	R(meth("SetInt"), func(fr *frame, a []value) value {
		r := rv(a[0])
		fr.i.rvSet(r, "SetInt")
		fr.i.mustKind(r, "SetInt", reflect.Int, reflect.Int8, reflect.Int16, reflect.Int32, reflect.Int64)
		*r.addr = conv(fr, types.Typ[basicKindOf(r.t)], types.Typ[types.Int64], a[1])
		return nil
	})
	R(meth("SetUint"), func(fr *frame, a []value) value {
		r := rv(a[0])
		fr.i.rvSet(r, "SetUint")
		fr.i.mustKind(r, "SetUint", reflect.Uint, reflect.Uint8, reflect.Uint16, reflect.Uint32, reflect.Uint64, reflect.Uintptr)
		*r.addr = conv(fr, types.Typ[basicKindOf(r.t)], types.Typ[types.Uint64], a[1])
		return nil
	})
	R(meth("SetFloat"), func(fr *frame, a []value) value {
		r := rv(a[0])
		fr.i.rvSet(r, "SetFloat")
		fr.i.mustKind(r, "SetFloat", reflect.Float32, reflect.Float64)
		*r.addr = conv(fr, types.Typ[basicKindOf(r.t)], types.Typ[types.Float64], a[1])
		return nil
	})
	R(meth("SetString"), func(fr *frame, a []value) value {
		r := rv(a[0])
		fr.i.rvSet(r, "SetString")
		fr.i.mustKind(r, "SetString", reflect.String)
		*r.addr = a[1]
		return nil
	})
	R(meth("SetBytes"), func(fr *frame, a []value) value {
		r := rv(a[0])
		fr.i.rvSet(r, "SetBytes")
		fr.i.mustKind(r, "SetBytes", reflect.Slice)
		if b, ok := r.t.Underlying().(*types.Slice).Elem().Underlying().(*types.Basic); !ok || b.Kind() != types.Uint8 {
			panic(fr.i.reflPanic("reflect.Value.SetBytes of non-byte slice"))
		}
		*r.addr = a[1]
		return nil
	})
	R(meth("SetLen"), func(fr *frame, a []value) value {
		r := rv(a[0])
		fr.i.rvSet(r, "SetLen")
		fr.i.mustKind(r, "SetLen", reflect.Slice)
		s := (*r.addr).([]value)
		n := fr.asInt(a[1])
		if n < 0 || n > int64(cap(s)) {
			panic(fr.i.reflPanic("reflect: slice length out of range in SetLen"))
		}
		*r.addr = s[:n]
		return nil
	})
	R(meth("SetCap"), func(fr *frame, a []value) value {
		r := rv(a[0])
		fr.i.rvSet(r, "SetCap")
		fr.i.mustKind(r, "SetCap", reflect.Slice)
		s := (*r.addr).([]value)
		n := fr.asInt(a[1])
		if n < int64(len(s)) || n > int64(cap(s)) {
			panic(fr.i.reflPanic("reflect: slice capacity out of range in SetCap"))
		}
		*r.addr = s[:len(s):n]
		return nil
	})
	R(meth("Grow"), func(fr *frame, a []value) value {
		r := rv(a[0])
		fr.i.rvSet(r, "Grow")
		fr.i.mustKind(r, "Grow", reflect.Slice)
		n := fr.asInt(a[1])
		if n < 0 {
			panic(fr.i.reflPanic("reflect.Value.Grow: negative len"))
		}
		s := (*r.addr).([]value)
		if int64(len(s))+n > int64(cap(s)) {
			ns := make([]value, len(s), int64(len(s))+n)
			copy(ns, s)
			et := r.t.Underlying().(*types.Slice).Elem()
			full := ns[:cap(ns)]
			for k := len(s); k < len(full); k++ {
				full[k] = zero(et)
			}
			*r.addr = ns
		}
		return nil
	})
	R(meth("SetMapIndex"), func(fr *frame, a []value) value {
		r, k, e := rv(a[0]), rv(a[1]), rv(a[2])
		fr.i.mustKind(r, "SetMapIndex", reflect.Map)
		m := r.get().(*omap)
		mt := r.t.Underlying().(*types.Map)
		if e == nil || e.t == nil {
			m.delete(fr, boxFor(k.get(), k.t, mt.Key()))
			return nil
		}
		if m == nil {
			panic(fr.i.rtPanic("assignment to entry in nil map"))
		}
		m.insert(fr, boxFor(k.get(), k.t, mt.Key()), boxFor(copyVal(e.get()), e.t, mt.Elem()))
		return nil
	})
	R(meth("MapIndex"), func(fr *frame, a []value) value {
		r, k := rv(a[0]), rv(a[1])
		fr.i.mustKind(r, "MapIndex", reflect.Map)
		m := r.get().(*omap)
		mt := r.t.Underlying().(*types.Map)
		if e := m.find(fr, boxFor(k.get(), k.t, mt.Key())); e != nil {
			return &rvalue{t: mt.Elem(), v: copyVal(e.val)}
		}
		return (*rvalue)(nil)
	})
	R(meth("MapKeys"), func(fr *frame, a []value) value {
		r := rv(a[0])
		fr.i.mustKind(r, "MapKeys", reflect.Map)
		m := r.get().(*omap)
		mt := r.t.Underlying().(*types.Map)
		var res []value
		if m != nil {
			for _, e := range m.entries {
				if !e.deleted {
					res = append(res, &rvalue{t: mt.Key(), v: e.key})
				}
			}
		}
		return res
	})

	// ---- Type methods (rtype) ----
	T := func(n string, f externalFn) { externals["(reflect.rtype)."+n] = f }
	tOf := func(a []value) types.Type { return a[0].(rtype).t }
	T("Kind", func(fr *frame, a []value) value { return uint(reflectKind(tOf(a))) })
	T("String", func(fr *frame, a []value) value { return reflTypeString(tOf(a)) })
	T("Name", func(fr *frame, a []value) value {
		switch t := tOf(a).(type) {
		case *types.Named:
			return t.Obj().Name()
		case *types.Basic:
			return t.Name()
		}
		return ""
	})
	T("PkgPath", func(fr *frame, a []value) value {
		if t, ok := tOf(a).(*types.Named); ok && t.Obj().Pkg() != nil {
			return t.Obj().Pkg().Path()
		}
		return ""
	})
	T("Elem", func(fr *frame, a []value) value {
		e, ok := tOf(a).Underlying().(interface{ Elem() types.Type })
		if !ok {
			panic(fr.i.reflPanic("reflect: Elem of invalid type " + tOf(a).String()))
		}
		return makeReflectType(rtype{e.Elem()})
	})
	T("Key", func(fr *frame, a []value) value {
		return makeReflectType(rtype{tOf(a).Underlying().(*types.Map).Key()})
	})
	T("Len", func(fr *frame, a []value) value { return int(tOf(a).Underlying().(*types.Array).Len()) })
	T("Bits", func(fr *frame, a []value) value {
		b, ok := tOf(a).Underlying().(*types.Basic)
		if !ok {
			panic(fr.i.reflPanic("reflect: Bits of non-arithmetic Type " + tOf(a).String()))
		}
		return int(fr.i.sizes.Sizeof(b)) * 8
	})
	T("Size", func(fr *frame, a []value) value { return uintptr(fr.i.sizes.Sizeof(tOf(a))) })
	T("Align", func(fr *frame, a []value) value { return int(fr.i.sizes.Alignof(tOf(a))) })
	T("FieldAlign", func(fr *frame, a []value) value { return int(fr.i.sizes.Alignof(tOf(a))) })
	T("Comparable", func(fr *frame, a []value) value { return types.Comparable(tOf(a)) })
	T("Implements", func(fr *frame, a []value) value {
		u := typeOfArg(a[1])
		it, ok := u.Underlying().(*types.Interface)
		if !ok {
			panic(fr.i.reflPanic("reflect: non-interface type passed to Type.Implements"))
		}
		return types.Implements(tOf(a), it)
	})
	T("AssignableTo", func(fr *frame, a []value) value { return fr.i.assignable(tOf(a), typeOfArg(a[1])) })
	T("ConvertibleTo", func(fr *frame, a []value) value { return types.ConvertibleTo(tOf(a), typeOfArg(a[1])) })
	T("NumMethod", func(fr *frame, a []value) value {
		if it, ok := tOf(a).Underlying().(*types.Interface); ok {
			return it.NumMethods()
		}
		n := 0
		ms := fr.i.prog.MethodSets.MethodSet(tOf(a))
		for k := 0; k < ms.Len(); k++ {
			if ms.At(k).Obj().Exported() {
				n++
			}
		}
		return n
	})
	T("NumField", func(fr *frame, a []value) value { return tOf(a).Underlying().(*types.Struct).NumFields() })
	T("NumIn", func(fr *frame, a []value) value { return tOf(a).Underlying().(*types.Signature).Params().Len() })
	T("NumOut", func(fr *frame, a []value) value { return tOf(a).Underlying().(*types.Signature).Results().Len() })
	T("In", func(fr *frame, a []value) value {
		return makeReflectType(rtype{tOf(a).Underlying().(*types.Signature).Params().At(int(fr.asInt(a[1]))).Type()})
	})
	T("Out", func(fr *frame, a []value) value {
		return makeReflectType(rtype{tOf(a).Underlying().(*types.Signature).Results().At(int(fr.asInt(a[1]))).Type()})
	})
	T("IsVariadic", func(fr *frame, a []value) value { return tOf(a).Underlying().(*types.Signature).Variadic() })
	T("Field", func(fr *frame, a []value) value {
		st := tOf(a).Underlying().(*types.Struct)
		k := int(fr.asInt(a[1]))
		return structField(st, k)
	})
	T("FieldByName", func(fr *frame, a []value) value {
		st := tOf(a).Underlying().(*types.Struct)
		name := goString(a[1])
		for k := 0; k < st.NumFields(); k++ {
			if st.Field(k).Name() == name {
				return tuple{structField(st, k), true}
			}
		}
		return tuple{structField(nil, 0), false}
	})
	externals["(reflect.error).Error"] = func(fr *frame, a []value) value { return a[0] }
}

// structField builds a reflect.StructField value.
// type StructField struct { Name, PkgPath string; Type Type; Tag StructTag; Offset uintptr; Index []int; Anonymous bool }
func structField(st *types.Struct, k int) value {
	if st == nil {
		return structure{"", "", iface{}, "", uintptr(0), []value(nil), false}
	}
	f := st.Field(k)
	pkg := ""
	if !f.Exported() && f.Pkg() != nil {
		pkg = f.Pkg().Path()
	}
	return structure{f.Name(), pkg, makeReflectType(rtype{f.Type()}), st.Tag(k), uintptr(0), []value{k}, f.Anonymous()}
}

func reflTypeString(t types.Type) string {
	return types.TypeString(t, func(p *types.Package) string { return p.Name() })
}

func (i *interpreter) rvElem(r *rvalue) value {
	switch r.kind() {
	case reflect.Ptr:
		p := r.get().(*value)
		if p == nil {
			return (*rvalue)(nil)
		}
		return &rvalue{t: r.t.Underlying().(*types.Pointer).Elem(), addr: p, ro: r.ro}
	case reflect.Interface:
		it := r.get().(iface)
		if it.t == nil {
			return (*rvalue)(nil)
		}
		return &rvalue{t: it.t, v: it.v, ro: r.ro}
	}
	panic(i.reflPanic("reflect: call of reflect.Value.Elem on " + kindName(r) + " Value"))
}

func (i *interpreter) rvField(r *rvalue, k int) value {
	st := r.t.Underlying().(*types.Struct)
	f := st.Field(k)
	ro := r.ro || !f.Exported()
	if r.addr != nil {
		s := (*r.addr).(structure)
		return &rvalue{t: f.Type(), addr: &s[k], ro: ro}
	}
	return &rvalue{t: f.Type(), v: r.v.(structure)[k], ro: ro}
}

// nativeFunc is a function value implemented by the engine.
type nativeFunc struct {
	name string
	fn   externalFn
}

// deepEqual implements reflect.DeepEqual on two interface values.
func (i *interpreter) deepEqual(fr *frame, x, y value, depth int) bool {
	if depth > 50 {
		panic(unsupported("DeepEqual: too deep"))
	}
	xi, yi := x.(iface), y.(iface)
	if xi.t == nil || yi.t == nil {
		return xi.t == nil && yi.t == nil
	}
	if !types.Identical(xi.t, yi.t) {
		return false
	}
	return i.deepEq(fr, xi.t, xi.v, yi.v, depth)
}

func (i *interpreter) deepEq(fr *frame, t types.Type, x, y value, depth int) bool {
	switch ut := t.Underlying().(type) {
	case *types.Slice:
		xs, ys := x.([]value), y.([]value)
		if (xs == nil) != (ys == nil) || len(xs) != len(ys) {
			return false
		}
		for k := range xs {
			if !i.deepEq(fr, ut.Elem(), xs[k], ys[k], depth+1) {
				return false
			}
		}
		return true
	case *types.Array:
		xs, ys := x.(array), y.(array)
		for k := range xs {
			if !i.deepEq(fr, ut.Elem(), xs[k], ys[k], depth+1) {
				return false
			}
		}
		return true
	case *types.Struct:
		xs, ok1 := x.(structure)
		ys, ok2 := y.(structure)
		if !ok1 || !ok2 {
			return x == y
		}
		for k := 0; k < ut.NumFields(); k++ {
			if !i.deepEq(fr, ut.Field(k).Type(), xs[k], ys[k], depth+1) {
				return false
			}
		}
		return true
	case *types.Pointer:
		xp, yp := x.(*value), y.(*value)
		if xp == yp {
			return true
		}
		if xp == nil || yp == nil {
			return false
		}
		return i.deepEq(fr, ut.Elem(), *xp, *yp, depth+1)
	case *types.Interface:
		return i.deepEqual(fr, x, y, depth+1)
	case *types.Map:
		xm, ym := x.(*omap), y.(*omap)
		if (xm == nil) != (ym == nil) || xm.len() != ym.len() {
			return false
		}
		if xm == nil {
			return true
		}
		for _, e := range xm.entries {
			if e.deleted {
				continue
			}
			o := ym.find(fr, e.key)
			if o == nil || !i.deepEq(fr, ut.Elem(), e.val, o.val, depth+1) {
				return false
			}
		}
		return true
	case *types.Signature:
		return false
	}
	return i.truth(i.equalsV(t, x, y))
}

var _ = strings.Contains
