package interp

// Cooperative goroutines, channels, select and blocking sync primitives.
// Exactly one interpreted goroutine runs at a time (baton passing between host
// goroutines); control changes hands only at blocking points, and the choice
// of the next runnable goroutine is a decision explored like any other.

import (
	"fmt"
	"go/types"
	"sync"

	"golang.org/x/tools/go/ssa"
)

type goroutine struct {
	id     int
	wake   chan struct{}
	done   bool
	cond   func() bool // nil = runnable; else runnable iff cond()
	reason string
}

type scheduler struct {
	i      *interpreter
	gs     []*goroutine
	cur    *goroutine
	main   *goroutine
	fatal  interface{} // panic to re-raise in the main goroutine
	killed bool
	wg     sync.WaitGroup

	locks map[*value]*lockState
	wgs   map[*value]*int64
	onces map[*value]*onceState
}

type lockState struct {
	writer  bool
	readers int
}

type onceState struct {
	done, running bool
}

func newScheduler(i *interpreter) *scheduler {
	s := &scheduler{i: i, locks: map[*value]*lockState{}, wgs: map[*value]*int64{}, onces: map[*value]*onceState{}}
	s.main = &goroutine{id: 0, wake: make(chan struct{}, 1)}
	s.gs = []*goroutine{s.main}
	s.cur = s.main
	return s
}

func (s *scheduler) runMain(f func()) { f() }

type killedPanic struct{}

// sleep parks the current host goroutine until it is handed the baton.
func (s *scheduler) sleep(g *goroutine) {
	<-g.wake
	if s.killed {
		panic(abortPath{"killed", ""})
	}
	s.cur = g
	if g == s.main && s.fatal != nil {
		f := s.fatal
		s.fatal = nil
		panic(f)
	}
}

func (s *scheduler) runnable(except *goroutine) []*goroutine {
	var rs []*goroutine
	for _, g := range s.gs {
		if g.done || g == except {
			continue
		}
		if g.cond == nil || g.cond() {
			rs = append(rs, g)
		}
	}
	return rs
}

// block suspends the current goroutine until cond() holds (cond is evaluated
// only while no goroutine runs, so it may inspect shared state freely).
func (s *scheduler) block(reason string, cond func() bool) {
	g := s.cur
	if cond() && len(s.gs) == 1 {
		return
	}
	g.cond, g.reason = cond, reason
	rs := s.runnable(nil)
	if len(rs) == 0 {
		s.deadlock(g)
		return
	}
	pick := rs[s.i.choose(len(rs))]
	if pick != g {
		pick.wake <- struct{}{}
		s.sleep(g)
	}
	g.cond = nil
}

func (s *scheduler) deadlock(g *goroutine) {
	msg := "all goroutines are asleep:"
	for _, o := range s.gs {
		if !o.done {
			msg += fmt.Sprintf(" g%d[%s]", o.id, o.reason)
		}
	}
	a := abortPath{"deadlock", msg}
	if g == s.main {
		panic(a)
	}
	s.fatal = a
	s.main.wake <- struct{}{}
	s.sleep(g) // never returns normally (killed)
}

// yieldAll lets every other goroutine run until it blocks or finishes and
// returns the number of goroutines (other than main) still alive.
func (s *scheduler) yieldAll() int {
	g := s.cur
	for {
		rs := s.runnable(g)
		if len(rs) == 0 {
			break
		}
		pick := rs[s.i.choose(len(rs))]
		g.cond, g.reason = func() bool { return true }, "yield"
		pick.wake <- struct{}{}
		s.sleep(g)
		g.cond = nil
	}
	n := 0
	for _, o := range s.gs {
		if o != s.main && !o.done {
			n++
		}
	}
	return n
}

func (s *scheduler) blockedReasons() []string {
	var rs []string
	for _, o := range s.gs {
		if o != s.main && !o.done {
			rs = append(rs, o.reason)
		}
	}
	return rs
}

func (i *interpreter) spawn(fr *frame, instr *ssa.Go, fn value, args []value) {
	s := i.sched
	if len(s.gs) > 16 {
		panic(abortPath{"bound", "more than 16 goroutines"})
	}
	g := &goroutine{id: len(s.gs), wake: make(chan struct{}, 1), reason: "start"}
	s.gs = append(s.gs, g)
	s.wg.Add(1)
	go func() {
		defer s.wg.Done()
		<-g.wake
		if s.killed {
			return
		}
		s.cur = g
		defer func() {
			r := recover()
			g.done = true
			if s.killed {
				return
			}
			if r != nil {
				if a, ok := r.(abortPath); ok && a.kind == "killed" {
					return
				}
				// uncaught panic or abort in a goroutine ends the path
				if s.fatal == nil {
					s.fatal = r
				}
				s.main.wake <- struct{}{}
				return
			}
			// normal exit: hand the baton on
			func() {
				defer func() {
					if r2 := recover(); r2 != nil {
						if s.fatal == nil {
							s.fatal = r2
						}
						s.main.wake <- struct{}{}
					}
				}()
				rs := s.runnable(nil)
				if len(rs) == 0 {
					// everybody else is blocked for good
					panic(abortPath{"deadlock", "goroutine exit leaves all others blocked"})
				}
				pick := rs[s.i.choose(len(rs))]
				pick.wake <- struct{}{}
			}()
		}()
		savedDepth := i.depth
		i.depth = 0
		call(i, nil, instr.Pos(), fn, args)
		i.depth = savedDepth
	}()
}

// killAll terminates all parked host goroutines of this path.
func (s *scheduler) killAll() {
	s.killed = true
	for _, g := range s.gs {
		if g != s.main && !g.done {
			select {
			case g.wake <- struct{}{}:
			default:
			}
		}
	}
	s.wg.Wait()
}

// ---- channels ----

type sendItem struct {
	v     value
	taken bool
	sel   *selState
	idx   int
}

type selState struct {
	done   bool
	chosen int
}

type channel struct {
	cap    int
	buf    []value
	closed bool
	sendq  []*sendItem
	recvW  int // goroutines currently blocked wanting to receive
}

func (i *interpreter) makeChan(n int) *channel { return &channel{cap: n} }

func (c *channel) len() int {
	if c == nil {
		return 0
	}
	return len(c.buf)
}

func (c *channel) liveSend() *sendItem {
	for len(c.sendq) > 0 {
		it := c.sendq[0]
		if it.taken || (it.sel != nil && it.sel.done) {
			c.sendq = c.sendq[1:]
			continue
		}
		return it
	}
	return nil
}

func (c *channel) recvReady() bool {
	return len(c.buf) > 0 || c.liveSend() != nil || c.closed
}

// tryRecv receives without blocking; ok2 reports whether anything happened.
func (c *channel) tryRecv() (v value, ok bool, done bool) {
	if len(c.buf) > 0 {
		v = c.buf[0]
		c.buf = c.buf[1:]
		// a blocked sender may now move its value into the buffer
		if it := c.liveSend(); it != nil && it.sel == nil {
			c.buf = append(c.buf, it.v)
			it.taken = true
		}
		return v, true, true
	}
	if it := c.liveSend(); it != nil {
		it.taken = true
		if it.sel != nil {
			it.sel.done = true
			it.sel.chosen = it.idx
		}
		return it.v, true, true
	}
	if c.closed {
		return nil, false, true
	}
	return nil, false, false
}

func (i *interpreter) chanRecv(fr *frame, c *channel) (value, bool) {
	s := i.sched
	if c == nil {
		s.block("recv on nil chan", func() bool { return false })
	}
	for {
		if v, ok, done := c.tryRecv(); done {
			return v, ok
		}
		c.recvW++
		s.block("chan receive", c.recvReady)
		c.recvW--
	}
}

func (i *interpreter) chanSend(fr *frame, c *channel, v value) {
	s := i.sched
	if c == nil {
		s.block("send on nil chan", func() bool { return false })
	}
	if c.closed {
		panic(i.rtPanic("send on closed channel"))
	}
	if len(c.buf) < c.cap {
		c.buf = append(c.buf, v)
		return
	}
	it := &sendItem{v: v}
	c.sendq = append(c.sendq, it)
	s.block("chan send", func() bool { return it.taken || c.closed })
	if !it.taken {
		panic(i.rtPanic("send on closed channel"))
	}
}

func (i *interpreter) chanClose(fr *frame, c *channel) {
	if c == nil {
		panic(i.rtPanic("close of nil channel"))
	}
	if c.closed {
		panic(i.rtPanic("close of closed channel"))
	}
	c.closed = true
}

// selectOp implements ssa.Select.
func (i *interpreter) selectOp(fr *frame, instr *ssa.Select) value {
	s := i.sched
	type cs struct {
		c    *channel
		send bool
		v    value
	}
	cases := make([]cs, len(instr.States))
	for k, st := range instr.States {
		c, _ := fr.get(st.Chan).(*channel)
		cases[k] = cs{c: c, send: st.Dir == types.SendOnly}
		if cases[k].send {
			cases[k].v = fr.get(st.Send)
		}
	}
	ready := func(k int) bool {
		c := cases[k].c
		if c == nil {
			return false
		}
		if cases[k].send {
			return c.closed || len(c.buf) < c.cap || c.recvW > 0 && c.cap == 0 && false
		}
		return c.recvReady()
	}
	finish := func(chosen int, recv value, recvOk bool) value {
		r := tuple{chosen, recvOk}
		for k, st := range instr.States {
			if st.Dir == types.RecvOnly {
				var v value
				if k == chosen && recvOk {
					v = recv
				} else {
					v = zero(st.Chan.Type().Underlying().(*types.Chan).Elem())
				}
				r = append(r, v)
			}
		}
		return r
	}
	fire := func(k int) value {
		c := cases[k].c
		if cases[k].send {
			if c.closed {
				panic(i.rtPanic("send on closed channel"))
			}
			c.buf = append(c.buf, cases[k].v)
			return finish(k, nil, false)
		}
		v, ok, _ := c.tryRecv()
		return finish(k, v, ok)
	}
	poll := func() (int, bool) {
		var rs []int
		for k := range cases {
			if ready(k) {
				rs = append(rs, k)
			}
		}
		if len(rs) == 0 {
			return 0, false
		}
		return rs[i.choose(len(rs))], true
	}
	if k, ok := poll(); ok {
		return fire(k)
	}
	if !instr.Blocking {
		// unbuffered send with a receiver already waiting counts as ready
		for k := range cases {
			if c := cases[k].c; c != nil && cases[k].send && c.cap == 0 && c.recvW > 0 && !c.closed {
				c.sendq = append(c.sendq, &sendItem{v: cases[k].v})
				return finish(k, nil, false)
			}
		}
		return finish(-1, nil, false)
	}
	// blocking: enqueue tentative sends, wait for any case
	sel := &selState{chosen: -1}
	for k := range cases {
		if c := cases[k].c; c != nil && cases[k].send {
			c.sendq = append(c.sendq, &sendItem{v: cases[k].v, sel: sel, idx: k})
		}
	}
	for k := range cases {
		if c := cases[k].c; c != nil && !cases[k].send {
			c.recvW++
		}
	}
	s.block("select", func() bool {
		if sel.done {
			return true
		}
		for k := range cases {
			if ready(k) {
				return true
			}
		}
		return false
	})
	for k := range cases {
		if c := cases[k].c; c != nil && !cases[k].send {
			c.recvW--
		}
	}
	if sel.done {
		return finish(sel.chosen, nil, false)
	}
	sel.done = true // withdraw tentative sends
	k, ok := poll()
	if !ok {
		panic("select: woke up with no ready case")
	}
	return fire(k)
}
