package interp

// Symbolic scalar and string operations.

import (
	"fmt"
	"go/token"
	"go/types"
	"math"
	"unicode/utf8"

	"symgo/smt"
)

func kindWidth(k types.BasicKind) smt.Sort {
	switch k {
	case types.Bool:
		return smt.Bool
	case types.Int8, types.Uint8:
		return 8
	case types.Int16, types.Uint16:
		return 16
	case types.Int32, types.Uint32:
		return 32
	case types.Int, types.Int64, types.Uint, types.Uint64, types.Uintptr:
		return 64
	case types.Float32:
		return smt.F32
	case types.Float64:
		return smt.F64
	}
	panic(fmt.Sprintf("kindWidth: %v", k))
}

func kindSigned(k types.BasicKind) bool {
	switch k {
	case types.Int, types.Int8, types.Int16, types.Int32, types.Int64:
		return true
	}
	return false
}

func kindIsFloat(k types.BasicKind) bool { return k == types.Float32 || k == types.Float64 }

// kindOf returns the basic kind of a scalar value.
func kindOf(v value) types.BasicKind {
	switch v := v.(type) {
	case sym:
		return v.k
	case ftab:
		return v.k
	case fmono:
		return types.Float64
	case bool:
		return types.Bool
	case int:
		return types.Int
	case int8:
		return types.Int8
	case int16:
		return types.Int16
	case int32:
		return types.Int32
	case int64:
		return types.Int64
	case uint:
		return types.Uint
	case uint8:
		return types.Uint8
	case uint16:
		return types.Uint16
	case uint32:
		return types.Uint32
	case uint64:
		return types.Uint64
	case uintptr:
		return types.Uintptr
	case float32:
		return types.Float32
	case float64:
		return types.Float64
	}
	panic(fmt.Sprintf("kindOf: %T", v))
}

// bitsOf returns the raw bits of a concrete scalar.
func bitsOf(v value) uint64 {
	switch v := v.(type) {
	case bool:
		if v {
			return 1
		}
		return 0
	case int:
		return uint64(v)
	case int8:
		return uint64(v)
	case int16:
		return uint64(v)
	case int32:
		return uint64(v)
	case int64:
		return uint64(v)
	case uint:
		return uint64(v)
	case uint8:
		return uint64(v)
	case uint16:
		return uint64(v)
	case uint32:
		return uint64(v)
	case uint64:
		return v
	case uintptr:
		return uint64(v)
	case float32:
		return uint64(math.Float32bits(v))
	case float64:
		return math.Float64bits(v)
	}
	panic(fmt.Sprintf("bitsOf: %T", v))
}

// fromBits boxes raw bits as a concrete value of kind k.
func fromBits(k types.BasicKind, b uint64) value {
	switch k {
	case types.Bool:
		return b != 0
	case types.Int:
		return int(b)
	case types.Int8:
		return int8(b)
	case types.Int16:
		return int16(b)
	case types.Int32:
		return int32(b)
	case types.Int64:
		return int64(b)
	case types.Uint:
		return uint(b)
	case types.Uint8:
		return uint8(b)
	case types.Uint16:
		return uint16(b)
	case types.Uint32:
		return uint32(b)
	case types.Uint64:
		return b
	case types.Uintptr:
		return uintptr(b)
	case types.Float32:
		return math.Float32frombits(uint32(b))
	case types.Float64:
		return math.Float64frombits(b)
	}
	panic(fmt.Sprintf("fromBits: %v", k))
}

// termOf returns the SMT term of a scalar value (symbolic or concrete).
func (i *interpreter) termOf(v value) *smt.Term {
	if s, ok := v.(sym); ok {
		return s.t
	}
	if f, ok := v.(ftab); ok {
		return i.ftabTerm(f)
	}
	if f, ok := v.(fmono); ok {
		return i.fmonoTerm(f)
	}
	k := kindOf(v)
	switch {
	case k == types.Bool:
		return i.tb.BoolConst(v.(bool))
	case k == types.Float64:
		return i.tb.FPConst(v.(float64))
	case k == types.Float32:
		return i.tb.FP32Const(v.(float32))
	}
	return i.tb.BV(bitsOf(v), kindWidth(k))
}

// mkVal boxes a term of kind k: concrete Go value if constant, else sym.
func (i *interpreter) mkVal(k types.BasicKind, t *smt.Term) value {
	if t.IsConst() {
		return fromBits(k, func() uint64 {
			if t.Sort > 0 && kindSigned(k) {
				// sign-extend to 64 bits for boxing
				sh := uint(64 - int(t.Sort))
				return uint64(int64(t.Val<<sh) >> sh)
			}
			return t.Val
		}())
	}
	return sym{k, t}
}

func (i *interpreter) symEq(x sym, y value) *smt.Term {
	yt := i.termOf(y)
	if kindIsFloat(x.k) {
		return i.tb.FpCmp(smt.OpFpEq, x.t, yt)
	}
	return i.tb.Eq(x.t, yt)
}

// ---- strings ----

func strAt(s value, k int) value {
	switch s := s.(type) {
	case string:
		return s[k]
	case symstr:
		return s[k]
	}
	panic(fmt.Sprintf("strAt: %T", s))
}

// normStr collapses an all-concrete symstr into a Go string.
func normStr(s symstr) value {
	for _, e := range s {
		if _, ok := e.(sym); ok {
			return s
		}
	}
	b := make([]byte, len(s))
	for k, e := range s {
		b[k] = e.(byte)
	}
	return string(b)
}

func strSlice(s value, lo, hi int) value {
	switch s := s.(type) {
	case string:
		return s[lo:hi]
	case symstr:
		return normStr(s[lo:hi:hi])
	}
	panic(fmt.Sprintf("strSlice: %T", s))
}

func strElems(s value) []value {
	switch s := s.(type) {
	case string:
		r := make([]value, len(s))
		for k := 0; k < len(s); k++ {
			r[k] = s[k]
		}
		return r
	case symstr:
		return s
	}
	panic(fmt.Sprintf("strElems: %T", s))
}

func strConcat(x, y value) value {
	xs, xok := x.(string)
	ys, yok := y.(string)
	if xok && yok {
		return xs + ys
	}
	r := make(symstr, 0, strLen(x)+strLen(y))
	r = append(r, strElems(x)...)
	r = append(r, strElems(y)...)
	return normStr(r)
}

// bytesToStr converts a []byte ([]value of byte|sym) to a string value.
func bytesToStr(b []value) value {
	r := make(symstr, len(b))
	copy(r, b)
	return normStr(r)
}

// strEq: equality of a symstr with a string/symstr.
func (i *interpreter) strEq(x symstr, y value) *smt.Term {
	if len(x) != strLen(y) {
		return i.tb.F
	}
	acc := i.tb.T
	for k := range x {
		yb := strAt(y, k)
		if xb, ok := x[k].(byte); ok {
			if yc, ok := yb.(byte); ok {
				if xb != yc {
					return i.tb.F
				}
				continue
			}
		}
		acc = i.tb.And(acc, i.tb.Eq(i.termOf(x[k]), i.termOf(yb)))
		if acc.IsFalse() {
			return acc
		}
	}
	return acc
}

// strLess: x < y lexicographically (bytes), as a Bool term.
func (i *interpreter) strLess(x, y value) *smt.Term {
	tb := i.tb
	nx, ny := strLen(x), strLen(y)
	n := nx
	if ny < n {
		n = ny
	}
	// build from the end: less_k = x[k] < y[k] || (x[k]==y[k] && less_{k+1})
	res := tb.BoolConst(nx < ny)
	for k := n - 1; k >= 0; k-- {
		a, b := i.termOf(strAt(x, k)), i.termOf(strAt(y, k))
		res = tb.Or(tb.BvUlt(a, b), tb.And(tb.Eq(a, b), res))
	}
	return res
}

func (i *interpreter) symStringBinop(op token.Token, x, y value) value {
	tb := i.tb
	switch op {
	case token.ADD:
		return strConcat(x, y)
	case token.EQL:
		if xs, ok := x.(symstr); ok {
			return i.boolVal(i.strEq(xs, y))
		}
		return i.boolVal(i.strEq(y.(symstr), x))
	case token.NEQ:
		if xs, ok := x.(symstr); ok {
			return i.boolVal(tb.Not(i.strEq(xs, y)))
		}
		return i.boolVal(tb.Not(i.strEq(y.(symstr), x)))
	case token.LSS:
		return i.boolVal(i.strLess(x, y))
	case token.GTR:
		return i.boolVal(i.strLess(y, x))
	case token.LEQ:
		return i.boolVal(tb.Not(i.strLess(y, x)))
	case token.GEQ:
		return i.boolVal(tb.Not(i.strLess(x, y)))
	}
	panic(fmt.Sprintf("invalid string op %s", op))
}

// symBinop implements binary operators where at least one operand is sym.
func (i *interpreter) symBinop(fr *frame, op token.Token, x, y value) value {
	tb := i.tb
	if op == token.SHL || op == token.SHR {
		return i.symShift(fr, op, x, y)
	}
	if r, ok := i.ftabBinop(op, x, y); ok {
		return r
	}
	if r, ok := i.fmonoBinop(op, x, y); ok {
		return r
	}
	k := kindOf(x)
	if _, ok := x.(sym); !ok {
		k = kindOf(y)
	}
	a, b := i.termOf(x), i.termOf(y)
	if k == types.Bool {
		switch op {
		case token.EQL:
			return i.boolVal(tb.Eq(a, b))
		case token.NEQ:
			return i.boolVal(tb.Not(tb.Eq(a, b)))
		case token.AND, token.LAND:
			return i.boolVal(tb.And(a, b))
		case token.OR, token.LOR:
			return i.boolVal(tb.Or(a, b))
		}
		panic(fmt.Sprintf("invalid bool op %s", op))
	}
	if kindIsFloat(k) {
		switch op {
		case token.ADD:
			return i.mkVal(k, tb.FpBin(smt.OpFpAdd, a, b))
		case token.SUB:
			return i.mkVal(k, tb.FpBin(smt.OpFpSub, a, b))
		case token.MUL:
			return i.mkVal(k, tb.FpBin(smt.OpFpMul, a, b))
		case token.QUO:
			return i.mkVal(k, tb.FpBin(smt.OpFpDiv, a, b))
		case token.EQL:
			return i.boolVal(tb.FpCmp(smt.OpFpEq, a, b))
		case token.NEQ:
			return i.boolVal(tb.Not(tb.FpCmp(smt.OpFpEq, a, b)))
		case token.LSS:
			return i.boolVal(tb.FpCmp(smt.OpFpLt, a, b))
		case token.LEQ:
			return i.boolVal(tb.FpCmp(smt.OpFpLe, a, b))
		case token.GTR:
			return i.boolVal(tb.FpCmp(smt.OpFpLt, b, a))
		case token.GEQ:
			return i.boolVal(tb.FpCmp(smt.OpFpLe, b, a))
		}
		panic(fmt.Sprintf("invalid float op %s", op))
	}
	signed := kindSigned(k)
	switch op {
	case token.ADD:
		return i.mkVal(k, tb.BvAdd(a, b))
	case token.SUB:
		return i.mkVal(k, tb.BvSub(a, b))
	case token.MUL:
		return i.mkVal(k, tb.BvMul(a, b))
	case token.QUO, token.REM:
		// division by zero is a forked panic path
		zero := tb.Eq(b, tb.BV(0, b.Sort))
		if i.truth(i.boolVal(zero)) {
			panic(targetPanic{iface{i.runtimeErrorString, "runtime error: integer divide by zero"}})
		}
		switch {
		case op == token.QUO && signed:
			return i.mkVal(k, tb.BvSDiv(a, b))
		case op == token.QUO:
			return i.mkVal(k, tb.BvUDiv(a, b))
		case signed:
			return i.mkVal(k, tb.BvSRem(a, b))
		}
		return i.mkVal(k, tb.BvURem(a, b))
	case token.AND:
		return i.mkVal(k, tb.BvAnd(a, b))
	case token.OR:
		return i.mkVal(k, tb.BvOr(a, b))
	case token.XOR:
		return i.mkVal(k, tb.BvXor(a, b))
	case token.AND_NOT:
		return i.mkVal(k, tb.BvAnd(a, tb.BvNot(b)))
	case token.EQL:
		return i.boolVal(tb.Eq(a, b))
	case token.NEQ:
		return i.boolVal(tb.Not(tb.Eq(a, b)))
	case token.LSS:
		if signed {
			return i.boolVal(tb.BvSlt(a, b))
		}
		return i.boolVal(tb.BvUlt(a, b))
	case token.LEQ:
		if signed {
			return i.boolVal(tb.BvSle(a, b))
		}
		return i.boolVal(tb.BvUle(a, b))
	case token.GTR:
		if signed {
			return i.boolVal(tb.BvSlt(b, a))
		}
		return i.boolVal(tb.BvUlt(b, a))
	case token.GEQ:
		if signed {
			return i.boolVal(tb.BvSle(b, a))
		}
		return i.boolVal(tb.BvUle(b, a))
	}
	panic(fmt.Sprintf("invalid symbolic binary op: %T %s %T", x, op, y))
}

func (i *interpreter) symShift(fr *frame, op token.Token, x, y value) value {
	tb := i.tb
	kx, ky := kindOf(x), kindOf(y)
	a, b := i.termOf(x), i.termOf(y)
	wx := a.Sort
	if kindSigned(ky) {
		neg := tb.BvSlt(b, tb.BV(0, b.Sort))
		if i.truth(i.boolVal(neg)) {
			panic(targetPanic{iface{i.runtimeErrorString, "runtime error: negative shift amount"}})
		}
	}
	// bring the shift amount to x's width, saturating
	var amt *smt.Term
	switch {
	case b.Sort == wx:
		amt = b
	case b.Sort < wx:
		amt = tb.Zext(b, wx)
	default:
		big := tb.Not(tb.BvUlt(b, tb.BV(uint64(wx), b.Sort)))
		amt = tb.Ite(big, tb.BV(uint64(wx), wx), tb.Extract(b, 0, wx))
	}
	switch {
	case op == token.SHL:
		return i.mkVal(kx, tb.BvShl(a, amt))
	case kindSigned(kx):
		return i.mkVal(kx, tb.BvAshr(a, amt))
	}
	return i.mkVal(kx, tb.BvLshr(a, amt))
}

func (i *interpreter) symUnop(op token.Token, x sym) value {
	tb := i.tb
	switch op {
	case token.NOT:
		return i.boolVal(tb.Not(x.t))
	case token.SUB:
		if kindIsFloat(x.k) {
			return i.mkVal(x.k, tb.FpNeg(x.t))
		}
		return i.mkVal(x.k, tb.BvNeg(x.t))
	case token.XOR:
		return i.mkVal(x.k, tb.BvNot(x.t))
	}
	panic(fmt.Sprintf("invalid symbolic unary op %s", op))
}

// symConvNum converts symbolic scalar x to basic kind dst.
func (i *interpreter) symConvNum(dst types.BasicKind, x sym) value {
	tb := i.tb
	if x.k == dst {
		return x
	}
	sf, df := kindIsFloat(x.k), kindIsFloat(dst)
	switch {
	case sf && df:
		return i.mkVal(dst, tb.FpToFp(x.t, kindWidth(dst)))
	case sf:
		return i.mkVal(dst, tb.FpToInt(x.t, kindSigned(dst), kindWidth(dst)))
	case df:
		if v, ok := i.tabulate(dst, x); ok {
			return v
		}
		if dst == types.Float64 && i.p != nil {
			return fmono{x: x.t, xk: x.k}
		}
		return i.mkVal(dst, tb.IntToFp(x.t, kindSigned(x.k), kindWidth(dst)))
	}
	sw, dw := kindWidth(x.k), kindWidth(dst)
	switch {
	case sw == dw:
		return i.mkVal(dst, x.t)
	case sw > dw:
		return i.mkVal(dst, tb.Extract(x.t, 0, dw))
	case kindSigned(x.k):
		return i.mkVal(dst, tb.Sext(x.t, dw))
	}
	return i.mkVal(dst, tb.Zext(x.t, dw))
}

// decodeRune decodes the first UTF-8 sequence of s (string or symstr, non-empty)
// by running the real unicode/utf8.DecodeRuneInString on it.
func (i *interpreter) decodeRune(fr *frame, s value) (value, int) {
	if cs, ok := s.(string); ok {
		r, size := utf8.DecodeRuneInString(cs)
		return r, size
	}
	fn := i.lookupFunc("unicode/utf8", "DecodeRuneInString")
	res := call(i, fr, token.NoPos, fn, []value{s}).(tuple)
	return res[0], int(fr.asInt(res[1]))
}
