package interp

// Models of sync, sync/atomic and time primitives on top of the cooperative
// scheduler.

import (
	"fmt"
	"go/token"
	"go/types"

	"golang.org/x/tools/go/ssa"
)

func (s *scheduler) lock(p *value) *lockState {
	l := s.locks[p]
	if l == nil {
		l = &lockState{}
		s.locks[p] = l
	}
	return l
}

// protected reports whether the running goroutine holds any lock or is inside
// a sync.Once body (used by the shared-write monitor).
func (s *scheduler) protected() bool {
	for _, l := range s.locks {
		if l.writer {
			return true
		}
	}
	for _, o := range s.onces {
		if o.running {
			return true
		}
	}
	return false
}

func recvPtr(fr *frame, v value) *value {
	p, _ := v.(*value)
	if p == nil {
		panic(fr.i.rtPanic("invalid memory address or nil pointer dereference"))
	}
	return p
}

func init() {
	register(map[string]externalFn{
		"(*sync.Mutex).Lock": func(fr *frame, a []value) value {
			s := fr.i.sched
			l := s.lock(recvPtr(fr, a[0]))
			if l.writer {
				s.block("Mutex.Lock", func() bool { return !l.writer })
			}
			l.writer = true
			return nil
		},
		"(*sync.Mutex).TryLock": func(fr *frame, a []value) value {
			l := fr.i.sched.lock(recvPtr(fr, a[0]))
			if l.writer {
				return false
			}
			l.writer = true
			return true
		},
		"(*sync.Mutex).Unlock": func(fr *frame, a []value) value {
			l := fr.i.sched.lock(recvPtr(fr, a[0]))
			if !l.writer {
				panic(abortPath{"unsupported", "fatal error: sync: unlock of unlocked mutex"})
			}
			l.writer = false
			return nil
		},
		"(*sync.RWMutex).Lock": func(fr *frame, a []value) value {
			s := fr.i.sched
			l := s.lock(recvPtr(fr, a[0]))
			if l.writer || l.readers > 0 {
				s.block("RWMutex.Lock", func() bool { return !l.writer && l.readers == 0 })
			}
			l.writer = true
			return nil
		},
		"(*sync.RWMutex).Unlock": func(fr *frame, a []value) value {
			l := fr.i.sched.lock(recvPtr(fr, a[0]))
			if !l.writer {
				panic(abortPath{"unsupported", "fatal error: sync: Unlock of unlocked RWMutex"})
			}
			l.writer = false
			return nil
		},
		"(*sync.RWMutex).RLock": func(fr *frame, a []value) value {
			s := fr.i.sched
			l := s.lock(recvPtr(fr, a[0]))
			if l.writer {
				s.block("RWMutex.RLock", func() bool { return !l.writer })
			}
			l.readers++
			return nil
		},
		"(*sync.RWMutex).RUnlock": func(fr *frame, a []value) value {
			l := fr.i.sched.lock(recvPtr(fr, a[0]))
			if l.readers <= 0 {
				panic(abortPath{"unsupported", "fatal error: sync: RUnlock of unlocked RWMutex"})
			}
			l.readers--
			return nil
		},
		"(*sync.Once).Do": func(fr *frame, a []value) value {
			s := fr.i.sched
			p := recvPtr(fr, a[0])
			o := s.onces[p]
			if o == nil {
				o = &onceState{}
				s.onces[p] = o
			}
			if o.done {
				return nil
			}
			if o.running {
				s.block("Once.Do", func() bool { return o.done })
				return nil
			}
			o.running = true
			defer func() { o.running = false; o.done = true }()
			call(fr.i, fr, token.NoPos, a[1], nil)
			return nil
		},
		"(*sync.WaitGroup).Add": func(fr *frame, a []value) value {
			s := fr.i.sched
			p := recvPtr(fr, a[0])
			c := s.wgs[p]
			if c == nil {
				c = new(int64)
				s.wgs[p] = c
			}
			*c += fr.asInt(a[1])
			if *c < 0 {
				panic(targetPanic{iface{types.Typ[types.String], "sync: negative WaitGroup counter"}})
			}
			return nil
		},
		"(*sync.WaitGroup).Done": func(fr *frame, a []value) value {
			s := fr.i.sched
			p := recvPtr(fr, a[0])
			c := s.wgs[p]
			if c == nil {
				c = new(int64)
				s.wgs[p] = c
			}
			*c--
			if *c < 0 {
				panic(targetPanic{iface{types.Typ[types.String], "sync: negative WaitGroup counter"}})
			}
			return nil
		},
		"(*sync.WaitGroup).Wait": func(fr *frame, a []value) value {
			s := fr.i.sched
			p := recvPtr(fr, a[0])
			c := s.wgs[p]
			if c == nil || *c == 0 {
				return nil
			}
			s.block("WaitGroup.Wait", func() bool { return *c == 0 })
			return nil
		},
		"(*sync.Pool).Get": func(fr *frame, a []value) value {
			p := recvPtr(fr, a[0])
			st := (*p).(structure)
			// field "New" is the last field of sync.Pool
			newf := st[len(st)-1]
			switch f := newf.(type) {
			case *closure:
				return call(fr.i, fr, token.NoPos, f, nil)
			case *ssa.Function:
				if f != nil {
					return call(fr.i, fr, token.NoPos, f, nil)
				}
			}
			return iface{}
		},
		"(*sync.Pool).Put": retNil,

		// ---- sync/atomic ----
		"sync/atomic.LoadInt32":             atomicLoad,
		"sync/atomic.LoadInt64":             atomicLoad,
		"sync/atomic.LoadUint32":            atomicLoad,
		"sync/atomic.LoadUint64":            atomicLoad,
		"sync/atomic.LoadUintptr":           atomicLoad,
		"sync/atomic.LoadPointer":           atomicLoad,
		"sync/atomic.StoreInt32":            atomicStore,
		"sync/atomic.StoreInt64":            atomicStore,
		"sync/atomic.StoreUint32":           atomicStore,
		"sync/atomic.StoreUint64":           atomicStore,
		"sync/atomic.StoreUintptr":          atomicStore,
		"sync/atomic.StorePointer":          atomicStore,
		"sync/atomic.SwapInt32":             atomicSwap,
		"sync/atomic.SwapInt64":             atomicSwap,
		"sync/atomic.SwapUint32":            atomicSwap,
		"sync/atomic.SwapUint64":            atomicSwap,
		"sync/atomic.SwapUintptr":           atomicSwap,
		"sync/atomic.SwapPointer":           atomicSwap,
		"sync/atomic.AddInt32":              atomicAdd,
		"sync/atomic.AddInt64":              atomicAdd,
		"sync/atomic.AddUint32":             atomicAdd,
		"sync/atomic.AddUint64":             atomicAdd,
		"sync/atomic.AddUintptr":            atomicAdd,
		"sync/atomic.CompareAndSwapInt32":   atomicCAS,
		"sync/atomic.CompareAndSwapInt64":   atomicCAS,
		"sync/atomic.CompareAndSwapUint32":  atomicCAS,
		"sync/atomic.CompareAndSwapUint64":  atomicCAS,
		"sync/atomic.CompareAndSwapUintptr": atomicCAS,
		"sync/atomic.CompareAndSwapPointer": atomicCAS,
		"(*sync/atomic.Value).Load": func(fr *frame, a []value) value {
			p := recvPtr(fr, a[0])
			return (*p).(structure)[0]
		},
		"(*sync/atomic.Value).Store": func(fr *frame, a []value) value {
			p := recvPtr(fr, a[0])
			if a[1].(iface).t == nil {
				panic(targetPanic{iface{types.Typ[types.String], "sync/atomic: store of nil value into Value"}})
			}
			fr.i.noteWrite(fr, &(*p).(structure)[0])
			(*p).(structure)[0] = a[1]
			return nil
		},
		"(*sync/atomic.Value).Swap": func(fr *frame, a []value) value {
			p := recvPtr(fr, a[0])
			old := (*p).(structure)[0]
			(*p).(structure)[0] = a[1]
			return old
		},
		"(*sync/atomic.Value).CompareAndSwap": func(fr *frame, a []value) value {
			p := recvPtr(fr, a[0])
			old := (*p).(structure)[0]
			if fr.i.truth(fr.i.equalsV(types.NewInterfaceType(nil, nil), old, a[1])) {
				(*p).(structure)[0] = a[2]
				return true
			}
			return false
		},

		// ---- time ----
		"time.Now":         func(fr *frame, a []value) value { return fr.i.timeNow(fr) },
		"time.now":         func(fr *frame, a []value) value { return tuple{int64(1700000000), int32(0), int64(1000000000)} },
		"time.runtimeNano": func(fr *frame, a []value) value { return int64(1000000000) },
		"time.Sleep":       retNil,
		// timers never fire (wall-clock time is outside every claim); what a
		// context deadline promises is observable through Context.Deadline
		"time.newTimer": func(fr *frame, a []value) value {
			pt := fr.fn.Signature.Results().At(0).Type().Underlying().(*types.Pointer)
			v := zero(pt.Elem())
			if st, ok := v.(structure); ok && len(st) == 2 {
				st[1] = true // Timer.initTimer
			}
			return &v
		},
		"time.stopTimer":  func(fr *frame, a []value) value { return true },
		"time.resetTimer": func(fr *frame, a []value) value { return true },
		"runtime.nanotime": func(fr *frame, a []value) value { return int64(1000000000) },
	})
}

func atomicLoad(fr *frame, a []value) value {
	return *recvPtr(fr, a[0])
}

func atomicStore(fr *frame, a []value) value {
	p := recvPtr(fr, a[0])
	fr.i.noteWrite(fr, p)
	*p = a[1]
	return nil
}

func atomicSwap(fr *frame, a []value) value {
	p := recvPtr(fr, a[0])
	fr.i.noteWrite(fr, p)
	old := *p
	*p = a[1]
	return old
}

func atomicAdd(fr *frame, a []value) value {
	p := recvPtr(fr, a[0])
	fr.i.noteWrite(fr, p)
	*p = binop(fr, token.ADD, nil, *p, a[1])
	return *p
}

func atomicCAS(fr *frame, a []value) value {
	p := recvPtr(fr, a[0])
	var eq bool
	switch old := (*p).(type) {
	case uptr:
		o2, _ := a[1].(uptr)
		eq = old.v == o2.v
	default:
		eq = fr.i.truth(binop(fr, token.EQL, types.Typ[kindOf(old)], old, a[1]))
	}
	if eq {
		fr.i.noteWrite(fr, p)
		*p = a[2]
		return true
	}
	return false
}

// timeNow returns a fixed time.Time (wall clock is outside every claim).
func (i *interpreter) timeNow(fr *frame) value {
	// time.Time{wall uint64, ext int64, loc *Location}
	return structure{uint64(0), int64(63835000000), (*value)(nil)}
}

var _ = fmt.Sprintf
