// Copyright 2013 The Go Authors. All rights reserved.
// Use of this source code is governed by a BSD-style
// license that can be found in the LICENSE file.
//
// Derived from golang.org/x/tools/go/ssa/interp (v0.29.0) and extended with
// symbolic scalars, symbolic strings, ordered maps and engine objects.

package interp

// Values
//
// All interpreter values are "boxed" in the empty interface, value.
// The range of possible dynamic types within value are:
//
// - bool, numbers, string       concrete scalars (as in the stock interpreter)
// - sym                         a symbolic scalar: Go basic kind + SMT term
// - symstr                      a string of concrete length with >=1 symbolic byte
// - *omap                       maps (insertion ordered association list + index)
// - *channel                    channels (cooperative scheduler)
// - []value                     slices
// - iface, structure, array, *value, *ssa.Function, *ssa.Builtin, *closure,
//   tuple, iter, bad, rtype, **deferred   as in the stock interpreter
// - uptr                        a boxed unsafe.Pointer remembering its origin

import (
	"bytes"
	"fmt"
	"go/token"
	"go/types"
	"sync"
	"unsafe"

	"golang.org/x/tools/go/ssa"
	"golang.org/x/tools/go/types/typeutil"
	"symgo/smt"
)

type value interface{}

type tuple []value

type array []value

type iface struct {
	t types.Type // never an "untyped" type
	v value
}

type structure []value

// sym is a symbolic scalar of Go basic kind k (Bool, Int..Uintptr, Float32/64).
type sym struct {
	k types.BasicKind
	t *smt.Term
}

// symstr is a string with concrete length; elements are byte or sym{Uint8}.
// Invariant: at least one element is symbolic (else it is a Go string).
type symstr []value

// uptr is an unsafe.Pointer that remembers the interpreter value it came from.
type uptr struct{ v value }

// For map, array, *array, slice, string or channel.
type iter interface {
	// next returns a Tuple (key, value, ok).
	next(fr *frame) tuple
}

type closure struct {
	Fn  *ssa.Function
	Env []value
}

type bad struct{}

type rtype struct {
	t types.Type
}

var (
	hashMu sync.Mutex
	hasher = typeutil.MakeHasher()
)

func hashType(t types.Type) int {
	hashMu.Lock()
	defer hashMu.Unlock()
	return int(hasher.Hash(t))
}

// nil-tolerant variant of types.Identical.
func sameType(x, y types.Type) bool {
	if x == nil {
		return y == nil
	}
	return y != nil && types.Identical(x, y)
}

// isSymbolic reports whether v (a scalar or string) has a symbolic part.
func isSymbolic(v value) bool {
	switch v.(type) {
	case sym, symstr, ftab, fmono:
		return true
	}
	return false
}

// equalsV returns x == y under Go's equivalence relation for type t as a
// value: a Go bool when decidable concretely, else a sym{Bool}.
func (i *interpreter) equalsV(t types.Type, x, y value) value {
	tb := i.tb
	switch x := x.(type) {
	case sym:
		return i.boolVal(i.symEq(x, y))
	case ftab:
		if r, ok := i.ftabBinop(token.EQL, x, y); ok {
			return r
		}
		return i.boolVal(i.tb.FpCmp(smt.OpFpEq, i.termOf(x), i.termOf(y)))
	case fmono:
		if r, ok := i.fmonoBinop(token.EQL, x, y); ok {
			return r
		}
		return i.boolVal(i.tb.FpCmp(smt.OpFpEq, i.termOf(x), i.termOf(y)))
	case symstr:
		return i.boolVal(i.strEq(x, y))
	case string:
		if ys, ok := y.(symstr); ok {
			return i.boolVal(i.strEq(ys, x))
		}
		return x == y.(string)
	case bool, int, int8, int16, int32, int64, uint, uint8, uint16, uint32, uint64, uintptr, float32, float64:
		if ys, ok := y.(sym); ok {
			return i.boolVal(i.symEq(ys, x))
		}
		if _, ok := y.(ftab); ok {
			return i.equalsV(t, y, x)
		}
		if _, ok := y.(fmono); ok {
			return i.equalsV(t, y, x)
		}
		return equalsConcrete(x, y)
	case complex64:
		return x == y.(complex64)
	case complex128:
		return x == y.(complex128)
	case *value:
		return x == y.(*value)
	case *channel:
		return x == y.(*channel)
	case uptr:
		yu, _ := y.(uptr)
		return x.v == yu.v
	case unsafe.Pointer:
		return x == y.(unsafe.Pointer)
	case structure:
		y := y.(structure)
		tStruct := t.Underlying().(*types.Struct)
		acc := tb.T
		for k, n := 0, tStruct.NumFields(); k < n; k++ {
			f := tStruct.Field(k)
			if f.Name() == "_" {
				continue
			}
			e := i.equalsV(f.Type(), x[k], y[k])
			if b, ok := e.(bool); ok {
				if !b {
					return false
				}
				continue
			}
			acc = tb.And(acc, e.(sym).t)
		}
		return i.boolVal(acc)
	case array:
		y := y.(array)
		tElt := t.Underlying().(*types.Array).Elem()
		acc := tb.T
		for k := range x {
			e := i.equalsV(tElt, x[k], y[k])
			if b, ok := e.(bool); ok {
				if !b {
					return false
				}
				continue
			}
			acc = tb.And(acc, e.(sym).t)
		}
		return i.boolVal(acc)
	case iface:
		y := y.(iface)
		if !sameType(x.t, y.t) {
			return false
		}
		if x.t == nil {
			return true
		}
		return i.equalsV(x.t, x.v, y.v)
	case rtype:
		return types.Identical(x.t, y.(rtype).t)
	case *rvalue:
		return x == y.(*rvalue)
	}

	// Since map, func and slice don't support comparison, this
	// case is only reachable if one of x or y is literally nil
	// (handled in eqnil) or via interface{} values.
	panic(targetPanic{iface{i.runtimeErrorString, fmt.Sprintf("runtime error: comparing uncomparable type %s", t)}})
}

func equalsConcrete(x, y value) bool {
	switch x := x.(type) {
	case bool:
		return x == y.(bool)
	case int:
		return x == y.(int)
	case int8:
		return x == y.(int8)
	case int16:
		return x == y.(int16)
	case int32:
		return x == y.(int32)
	case int64:
		return x == y.(int64)
	case uint:
		return x == y.(uint)
	case uint8:
		return x == y.(uint8)
	case uint16:
		return x == y.(uint16)
	case uint32:
		return x == y.(uint32)
	case uint64:
		return x == y.(uint64)
	case uintptr:
		return x == y.(uintptr)
	case float32:
		return x == y.(float32)
	case float64:
		return x == y.(float64)
	}
	panic(fmt.Sprintf("equalsConcrete: %T", x))
}

// boolVal boxes a Bool term: Go bool if constant, else sym.
func (i *interpreter) boolVal(t *smt.Term) value {
	if t.IsConst() {
		return t.Val == 1
	}
	return sym{types.Bool, t}
}

// reflect.Value struct values don't have a fixed shape, since the
// payload can be a scalar or an aggregate depending on the instance.
// So store (and load) can't simply use recursion over the shape of the
// rhs value, or the lhs, to copy the value; we need the static type
// information.

// load returns the value of type T in *addr.
func load(T types.Type, addr *value) value {
	switch T := T.Underlying().(type) {
	case *types.Struct:
		v, ok := (*addr).(structure)
		if !ok {
			return *addr // modelled opaque struct (e.g. reflect.Value)
		}
		a := make(structure, len(v))
		for i := range a {
			a[i] = load(T.Field(i).Type(), &v[i])
		}
		return a
	case *types.Array:
		v := (*addr).(array)
		a := make(array, len(v))
		for i := range a {
			a[i] = load(T.Elem(), &v[i])
		}
		return a
	default:
		return *addr
	}
}

// store stores value v of type T into *addr.
func store(T types.Type, addr *value, v value) {
	switch T := T.Underlying().(type) {
	case *types.Struct:
		lhs, ok := (*addr).(structure)
		rhs, ok2 := v.(structure)
		if !ok || !ok2 {
			*addr = v
			return
		}
		for i := range lhs {
			store(T.Field(i).Type(), &lhs[i], rhs[i])
		}
	case *types.Array:
		lhs := (*addr).(array)
		rhs := v.(array)
		for i := range lhs {
			store(T.Elem(), &lhs[i], rhs[i])
		}
	default:
		*addr = v
	}
}

// copyVal makes an unaliased copy of an aggregate value (structs/arrays are
// value types); everything else is returned as is.
func copyVal(v value) value {
	switch v := v.(type) {
	case structure:
		a := make(structure, len(v))
		for i := range v {
			a[i] = copyVal(v[i])
		}
		return a
	case array:
		a := make(array, len(v))
		for i := range v {
			a[i] = copyVal(v[i])
		}
		return a
	}
	return v
}

// Prints in the style of built-in println.
func writeValue(buf *bytes.Buffer, v value) {
	switch v := v.(type) {
	case nil, bool, int, int8, int16, int32, int64, uint, uint8, uint16, uint32, uint64, uintptr, float32, float64, complex64, complex128, string:
		fmt.Fprintf(buf, "%v", v)

	case sym:
		fmt.Fprintf(buf, "<sym %s>", v.t)

	case symstr:
		buf.WriteString("\"")
		for _, e := range v {
			if b, ok := e.(byte); ok {
				buf.WriteByte(b)
			} else {
				buf.WriteString("?")
			}
		}
		buf.WriteString("\"")

	case *omap:
		buf.WriteString("map[")
		sep := ""
		if v != nil {
			for _, e := range v.entries {
				if e.deleted {
					continue
				}
				buf.WriteString(sep)
				sep = " "
				writeValue(buf, e.key)
				buf.WriteString(":")
				writeValue(buf, e.val)
			}
		}
		buf.WriteString("]")

	case *channel:
		fmt.Fprintf(buf, "%p", v)

	case *value:
		if v == nil {
			buf.WriteString("<nil>")
		} else {
			fmt.Fprintf(buf, "%p", v)
		}

	case iface:
		fmt.Fprintf(buf, "(%s, ", v.t)
		writeValue(buf, v.v)
		buf.WriteString(")")

	case structure:
		buf.WriteString("{")
		for i, e := range v {
			if i > 0 {
				buf.WriteString(" ")
			}
			writeValue(buf, e)
		}
		buf.WriteString("}")

	case array:
		buf.WriteString("[")
		for i, e := range v {
			if i > 0 {
				buf.WriteString(" ")
			}
			writeValue(buf, e)
		}
		buf.WriteString("]")

	case []value:
		buf.WriteString("[")
		for i, e := range v {
			if i > 0 {
				buf.WriteString(" ")
			}
			writeValue(buf, e)
		}
		buf.WriteString("]")

	case *ssa.Function, *ssa.Builtin, *closure:
		fmt.Fprintf(buf, "%p", v) // (an address)

	case rtype:
		buf.WriteString(v.t.String())

	case tuple:
		// Unreachable in well-formed Go programs
		buf.WriteString("(")
		for i, e := range v {
			if i > 0 {
				buf.WriteString(", ")
			}
			writeValue(buf, e)
		}
		buf.WriteString(")")

	default:
		fmt.Fprintf(buf, "<%T>", v)
	}
}

// Implements printing of Go values in the style of built-in println.
func toString(v value) string {
	var b bytes.Buffer
	writeValue(&b, v)
	return b.String()
}

// ------------------------------------------------------------------------
// Maps: insertion-ordered association list with an index for concrete basic
// keys. Deterministic iteration; symbolic keys are compared by decisions.

type mentry struct {
	key, val value
	deleted  bool
}

type omap struct {
	keyType types.Type
	entries []*mentry
	index   map[value]*mentry // concrete basic/pointer keys only
	nsym    int               // live entries with a symbolic (part of) key
	live    int
	basic   bool // key type is basic / pointer / chan (Go-hashable boxed value)
}

func keyIsBasic(t types.Type) bool {
	switch t := t.Underlying().(type) {
	case *types.Basic, *types.Chan, *types.Pointer:
		_ = t
		return true
	}
	return false
}

func makeMap(kt types.Type) *omap {
	m := &omap{keyType: kt, basic: keyIsBasic(kt)}
	if m.basic {
		m.index = make(map[value]*mentry)
	}
	return m
}

func (m *omap) len() int {
	if m == nil {
		return 0
	}
	return m.live
}

// find returns the entry for key k (forking on symbolic comparisons).
func (m *omap) find(fr *frame, k value) *mentry {
	if m == nil {
		return nil
	}
	if m.basic && !isSymbolic(k) {
		if e, ok := m.index[k]; ok {
			return e
		}
		if m.nsym == 0 {
			return nil
		}
		for _, e := range m.entries {
			if e.deleted || !isSymbolic(e.key) {
				continue
			}
			if fr.i.truth(fr.i.equalsV(m.keyType, e.key, k)) {
				return e
			}
		}
		return nil
	}
	for _, e := range m.entries {
		if e.deleted {
			continue
		}
		if fr.i.truth(fr.i.equalsV(m.keyType, e.key, k)) {
			return e
		}
	}
	return nil
}

func (m *omap) insert(fr *frame, k, v value) {
	if m == nil {
		panic(targetPanic{iface{fr.i.runtimeErrorString, "assignment to entry in nil map"}})
	}
	if e := m.find(fr, k); e != nil {
		e.val = v
		return
	}
	e := &mentry{key: k, val: v}
	m.entries = append(m.entries, e)
	m.live++
	if m.basic && !isSymbolic(k) {
		m.index[k] = e
	} else if isSymbolic(k) {
		m.nsym++
	}
	if len(m.entries) > 32 && len(m.entries) > 2*m.live {
		m.compact()
	}
}

func (m *omap) delete(fr *frame, k value) {
	if m == nil {
		return
	}
	if e := m.find(fr, k); e != nil {
		e.deleted = true
		m.live--
		if m.basic && !isSymbolic(e.key) {
			delete(m.index, e.key)
		} else if isSymbolic(e.key) {
			m.nsym--
		}
	}
}

func (m *omap) compact() {
	out := m.entries[:0:0]
	for _, e := range m.entries {
		if !e.deleted {
			out = append(out, e)
		}
	}
	m.entries = out
}

type omapIter struct {
	m     *omap
	order []*mentry // snapshot of entries at start (in chosen order)
	i     int
}

func (it *omapIter) next(fr *frame) tuple {
	for it.i < len(it.order) {
		e := it.order[it.i]
		it.i++
		if e.deleted {
			continue
		}
		return tuple{true, e.key, e.val}
	}
	return tuple{false, nil, nil}
}

// ------------------------------------------------------------------------
// String iterators

type stringIter struct {
	s value // string or symstr
	i int
}

func strLen(s value) int {
	switch s := s.(type) {
	case string:
		return len(s)
	case symstr:
		return len(s)
	}
	panic(fmt.Sprintf("strLen: %T", s))
}

func (it *stringIter) next(fr *frame) tuple {
	n := strLen(it.s)
	if it.i >= n {
		return tuple{false, nil, nil}
	}
	r, size := fr.i.decodeRune(fr, strSlice(it.s, it.i, n))
	okv := tuple{true, it.i, r}
	it.i += size
	return okv
}
