package smt

import (
	"bufio"
	"fmt"
	"io"
	"os"
	"os/exec"
	"strconv"
	"strings"
	"time"
)

// SlowQuery, when non-zero, makes queries slower than it be logged to stderr.
var SlowQuery time.Duration

type Result int

const (
	Unsat Result = iota
	Sat
	Unknown
)

func (r Result) String() string { return [...]string{"unsat", "sat", "unknown"}[r] }

type Stats struct {
	Sat, Unsat, Unknown int
	Errors              int
	SolverTime          time.Duration
	Queries             int
}

// Session drives one long-lived solver process ("z3 -in"-compatible).
type Session struct {
	tb        *Table
	argv      []string
	cmd       *exec.Cmd
	in        io.WriteCloser
	out       *bufio.Reader
	epoch     int
	timeoutMs int
	Stats     Stats
	LastErr   string
	Log       io.Writer // optional transcript
	asserted  int
}

func NewSession(tb *Table, argv []string, timeoutMs int) (*Session, error) {
	s := &Session{tb: tb, argv: argv, timeoutMs: timeoutMs}
	if err := s.start(); err != nil {
		return nil, err
	}
	return s, nil
}

func (s *Session) start() error {
	s.cmd = exec.Command(s.argv[0], s.argv[1:]...)
	in, err := s.cmd.StdinPipe()
	if err != nil {
		return err
	}
	out, err := s.cmd.StdoutPipe()
	if err != nil {
		return err
	}
	s.cmd.Stderr = nil
	if err := s.cmd.Start(); err != nil {
		return err
	}
	s.in = in
	s.out = bufio.NewReaderSize(out, 1<<16)
	s.epoch++
	s.preamble()
	return nil
}

func (s *Session) preamble() {
	s.send(fmt.Sprintf("(set-option :timeout %d)", s.timeoutMs))
	s.asserted = 0
}

func (s *Session) Close() {
	if s.cmd != nil {
		s.in.Close()
		s.cmd.Process.Kill()
		s.cmd.Wait()
		s.cmd = nil
	}
}

// Restart kills and restarts the solver (after a hang or to bound memory).
func (s *Session) Restart() error {
	s.Close()
	return s.start()
}

func (s *Session) send(line string) {
	if s.Log != nil {
		fmt.Fprintln(s.Log, line)
	}
	io.WriteString(s.in, line)
	io.WriteString(s.in, "\n")
}

// Reset forgets all assertions and definitions (start of a new path).
func (s *Session) Reset() {
	s.send("(reset)")
	s.epoch++
	s.preamble()
}

// define makes sure t and all its sub-terms are defined at the base level.
func (s *Session) define(t *Term) {
	if t.epoch == s.epoch || t.Op == OpConst {
		return
	}
	// iterative post-order to avoid deep recursion
	type fr struct {
		t *Term
		i int
	}
	stack := []fr{{t, 0}}
	for len(stack) > 0 {
		top := &stack[len(stack)-1]
		if top.t.epoch == s.epoch || top.t.Op == OpConst {
			stack = stack[:len(stack)-1]
			continue
		}
		if top.i < len(top.t.Args) {
			a := top.t.Args[top.i]
			top.i++
			if a.epoch != s.epoch && a.Op != OpConst {
				stack = append(stack, fr{a, 0})
			}
			continue
		}
		tt := top.t
		tt.epoch = s.epoch
		if tt.Op == OpVar {
			s.send(fmt.Sprintf("(declare-const %s %s)", tt.Name, tt.Sort))
		} else {
			s.send(fmt.Sprintf("(define-fun %s () %s %s)", tt.ref(), tt.Sort, tt.body()))
		}
		stack = stack[:len(stack)-1]
	}
}

// Assert adds t permanently (until Reset).
func (s *Session) Assert(t *Term) {
	if t.IsTrue() {
		return
	}
	s.define(t)
	s.send("(assert " + t.ref() + ")")
	s.asserted++
}

func (s *Session) readLine() (string, error) {
	line, err := s.out.ReadString('\n')
	return strings.TrimSpace(line), err
}

// readResult reads lines until a check-sat verdict appears.
func (s *Session) readResult() Result {
	sawErr := false
	for {
		line, err := s.readLine()
		if err != nil {
			s.LastErr = "solver died: " + err.Error()
			s.Stats.Errors++
			s.Restart()
			return Unknown
		}
		switch {
		case line == "sat":
			if sawErr {
				return Unknown
			}
			return Sat
		case line == "unsat":
			if sawErr {
				return Unknown
			}
			return Unsat
		case line == "unknown" || line == "timeout":
			return Unknown
		case strings.HasPrefix(line, "(error"):
			sawErr = true
			s.LastErr = line
			s.Stats.Errors++
		case line == "":
		default:
			// unexpected chatter; treat as inconclusive marker
			if strings.Contains(line, "error") {
				sawErr = true
				s.LastErr = line
			}
		}
	}
}

// Check decides satisfiability of (asserted ∧ extras). If vars is non-nil and
// the result is Sat, the model values of vars are returned (by name).
func (s *Session) Check(extras []*Term, vars []*Term) (Result, map[string]uint64) {
	for _, e := range extras {
		if e.IsFalse() {
			return Unsat, nil
		}
	}
	for _, e := range extras {
		s.define(e)
	}
	for _, v := range vars {
		s.define(v)
	}
	t0 := time.Now()
	s.send("(push 1)")
	for _, e := range extras {
		if !e.IsTrue() {
			s.send("(assert " + e.ref() + ")")
		}
	}
	s.send("(check-sat)")
	r := s.readResult()
	var model map[string]uint64
	if r == Sat && len(vars) > 0 {
		var sb strings.Builder
		sb.WriteString("(get-value (")
		for _, v := range vars {
			sb.WriteString(v.ref())
			sb.WriteByte(' ')
		}
		sb.WriteString("))")
		s.send(sb.String())
		txt, err := s.readSexp()
		if err != nil {
			s.LastErr = "get-value: " + err.Error()
			r = Unknown
		} else {
			model, err = parseModel(txt)
			if err != nil {
				s.LastErr = "get-value parse: " + err.Error() + ": " + txt
				r = Unknown
			}
		}
	}
	if s.cmd != nil {
		s.send("(pop 1)")
	}
	el := time.Since(t0)
	s.Stats.SolverTime += el
	if SlowQuery > 0 && el > SlowQuery {
		var sb strings.Builder
		for _, e := range extras {
			sb.WriteString(e.String())
			sb.WriteString(" ; ")
		}
		fmt.Fprintf(os.Stderr, "[slow query %.1fs -> %v, %d asserted] %s\n", el.Seconds(), r, s.asserted, sb.String())
	}
	s.Stats.Queries++
	switch r {
	case Sat:
		s.Stats.Sat++
	case Unsat:
		s.Stats.Unsat++
	default:
		s.Stats.Unknown++
	}
	return r, model
}

// readSexp reads one balanced s-expression (possibly spanning lines).
func (s *Session) readSexp() (string, error) {
	var sb strings.Builder
	depth := 0
	started := false
	for {
		line, err := s.out.ReadString('\n')
		if err != nil {
			return "", err
		}
		for _, c := range line {
			if c == '(' {
				depth++
				started = true
			} else if c == ')' {
				depth--
			}
		}
		sb.WriteString(line)
		if started && depth <= 0 {
			break
		}
	}
	txt := sb.String()
	if strings.HasPrefix(strings.TrimSpace(txt), "(error") {
		return "", fmt.Errorf("%s", strings.TrimSpace(txt))
	}
	return txt, nil
}

// parseModel parses ((name value) ...) with value ∈ #x.. | #b.. | true | false.
func parseModel(txt string) (map[string]uint64, error) {
	m := map[string]uint64{}
	toks := tokenize(txt)
	// expect: ( ( name val ) ( name val ) ... )
	i := 0
	if len(toks) == 0 || toks[0] != "(" {
		return nil, fmt.Errorf("no open paren")
	}
	i++
	for i < len(toks) && toks[i] == "(" {
		if i+2 >= len(toks) {
			return nil, fmt.Errorf("truncated")
		}
		name := toks[i+1]
		val := toks[i+2]
		j := i + 3
		if val == "(" {
			// skip composite values (e.g. (_ bv1 8)) — handle (_ bvN w)
			depth := 1
			var inner []string
			for j < len(toks) && depth > 0 {
				if toks[j] == "(" {
					depth++
				} else if toks[j] == ")" {
					depth--
					if depth == 0 {
						j++
						break
					}
				}
				inner = append(inner, toks[j])
				j++
			}
			if len(inner) >= 2 && inner[0] == "_" && strings.HasPrefix(inner[1], "bv") {
				v, err := strconv.ParseUint(inner[1][2:], 10, 64)
				if err != nil {
					return nil, err
				}
				m[name] = v
			} else {
				return nil, fmt.Errorf("unsupported value for %s", name)
			}
		} else {
			v, err := parseLit(val)
			if err != nil {
				return nil, fmt.Errorf("%s: %v", name, err)
			}
			m[name] = v
		}
		if j >= len(toks) || toks[j] != ")" {
			return nil, fmt.Errorf("expected ) after %s", name)
		}
		i = j + 1
	}
	return m, nil
}

func parseLit(s string) (uint64, error) {
	switch {
	case s == "true":
		return 1, nil
	case s == "false":
		return 0, nil
	case strings.HasPrefix(s, "#x"):
		return strconv.ParseUint(s[2:], 16, 64)
	case strings.HasPrefix(s, "#b"):
		return strconv.ParseUint(s[2:], 2, 64)
	}
	return 0, fmt.Errorf("bad literal %q", s)
}

func tokenize(s string) []string {
	var toks []string
	cur := strings.Builder{}
	flush := func() {
		if cur.Len() > 0 {
			toks = append(toks, cur.String())
			cur.Reset()
		}
	}
	for _, c := range s {
		switch c {
		case '(', ')':
			flush()
			toks = append(toks, string(c))
		case ' ', '\n', '\t', '\r':
			flush()
		default:
			cur.WriteRune(c)
		}
	}
	flush()
	return toks
}
