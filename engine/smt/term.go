// Package smt is a small hash-consed term DAG for QF_BV (+ Bool, + FloatingPoint
// 64) with aggressive constant folding, an SMT-LIB2 printer and a session with a
// long-lived solver process.
package smt

import (
	"fmt"
	"math"
	"math/bits"
	"strconv"
	"strings"
)

// Sort: 0 = Bool, n>0 = (_ BitVec n), -64 = Float64, -32 = Float32.
type Sort int

const (
	Bool Sort = 0
	F64  Sort = -64
	F32  Sort = -32
)

func (s Sort) String() string {
	switch {
	case s == Bool:
		return "Bool"
	case s == F64:
		return "(_ FloatingPoint 11 53)"
	case s == F32:
		return "(_ FloatingPoint 8 24)"
	}
	return fmt.Sprintf("(_ BitVec %d)", int(s))
}

type Op uint8

const (
	OpConst Op = iota // Val (bool: 0/1; bv: value masked; fp: IEEE bits)
	OpVar             // Name
	OpNot
	OpAnd
	OpOr
	OpEq
	OpIte
	OpBvAdd
	OpBvSub
	OpBvMul
	OpBvUDiv
	OpBvURem
	OpBvSDiv
	OpBvSRem
	OpBvAnd
	OpBvOr
	OpBvXor
	OpBvNot
	OpBvNeg
	OpBvShl
	OpBvLshr
	OpBvAshr
	OpBvUlt
	OpBvUle
	OpBvSlt
	OpBvSle
	OpZext    // args[0], to width Sort
	OpSext    //
	OpExtract // low Aux bits..: extract [Aux+width-1 : Aux]
	OpConcat
	// floating point
	OpFpAdd
	OpFpSub
	OpFpMul
	OpFpDiv
	OpFpNeg
	OpFpLt
	OpFpLe
	OpFpEq // IEEE equality
	OpFpIsNaN
	OpSToFp   // signed bv -> fp (RNE)
	OpUToFp   // unsigned bv -> fp (RNE)
	OpFpToSbv // fp -> signed bv (RTZ), width = Sort
	OpFpToUbv
	OpFpToFp // fp -> fp of other precision (RNE)
	OpFpBits // fp -> bv reinterpret (via fresh var axiomatised? we use fp.to_ieee_bv where available)
	OpBitsFp // bv -> fp reinterpret
)

type Term struct {
	ID   int
	Op   Op
	Sort Sort
	Args []*Term
	Val  uint64 // OpConst
	Aux  int    // OpExtract low bit
	Name string // OpVar
	// emission bookkeeping (owned by a Session)
	epoch int
}

// Table is a hash-consing table. Not safe for concurrent use: one per worker.
type Table struct {
	m    map[string]*Term
	next int
	T, F *Term
}

func NewTable() *Table {
	tb := &Table{m: make(map[string]*Term)}
	tb.T = tb.mk(&Term{Op: OpConst, Sort: Bool, Val: 1})
	tb.F = tb.mk(&Term{Op: OpConst, Sort: Bool, Val: 0})
	return tb
}

func (tb *Table) Size() int { return len(tb.m) }

func (tb *Table) mk(t *Term) *Term {
	var sb strings.Builder
	sb.WriteString(strconv.Itoa(int(t.Op)))
	sb.WriteByte(':')
	sb.WriteString(strconv.Itoa(int(t.Sort)))
	switch t.Op {
	case OpConst:
		sb.WriteByte(':')
		sb.WriteString(strconv.FormatUint(t.Val, 16))
	case OpVar:
		sb.WriteByte(':')
		sb.WriteString(t.Name)
	case OpExtract:
		sb.WriteByte(':')
		sb.WriteString(strconv.Itoa(t.Aux))
	}
	for _, a := range t.Args {
		sb.WriteByte(',')
		sb.WriteString(strconv.Itoa(a.ID))
	}
	k := sb.String()
	if e, ok := tb.m[k]; ok {
		return e
	}
	tb.next++
	t.ID = tb.next
	tb.m[k] = t
	return t
}

func mask(w Sort) uint64 {
	if w >= 64 {
		return ^uint64(0)
	}
	return (uint64(1) << uint(w)) - 1
}

func sext64(v uint64, w Sort) int64 {
	if w >= 64 {
		return int64(v)
	}
	sh := uint(64 - int(w))
	return int64(v<<sh) >> sh
}

func (t *Term) IsConst() bool { return t.Op == OpConst }

// IsTrue / IsFalse for Bool constants.
func (t *Term) IsTrue() bool  { return t.Op == OpConst && t.Sort == Bool && t.Val == 1 }
func (t *Term) IsFalse() bool { return t.Op == OpConst && t.Sort == Bool && t.Val == 0 }

func (tb *Table) BoolConst(b bool) *Term {
	if b {
		return tb.T
	}
	return tb.F
}

func (tb *Table) BV(v uint64, w Sort) *Term {
	if w <= 0 || w > 64 {
		panic(fmt.Sprintf("smt: bad bv width %d", w))
	}
	return tb.mk(&Term{Op: OpConst, Sort: w, Val: v & mask(w)})
}

func (tb *Table) FPConst(f float64) *Term {
	return tb.mk(&Term{Op: OpConst, Sort: F64, Val: math.Float64bits(f)})
}
func (tb *Table) FP32Const(f float32) *Term {
	return tb.mk(&Term{Op: OpConst, Sort: F32, Val: uint64(math.Float32bits(f))})
}

func (tb *Table) Var(name string, s Sort) *Term {
	return tb.mk(&Term{Op: OpVar, Sort: s, Name: name})
}

func (tb *Table) Not(a *Term) *Term {
	if a.IsConst() {
		return tb.BoolConst(a.Val == 0)
	}
	if a.Op == OpNot {
		return a.Args[0]
	}
	return tb.mk(&Term{Op: OpNot, Sort: Bool, Args: []*Term{a}})
}

func (tb *Table) And(a, b *Term) *Term {
	if a.IsConst() {
		if a.Val == 0 {
			return tb.F
		}
		return b
	}
	if b.IsConst() {
		if b.Val == 0 {
			return tb.F
		}
		return a
	}
	if a == b {
		return a
	}
	if a.ID > b.ID {
		a, b = b, a
	}
	return tb.mk(&Term{Op: OpAnd, Sort: Bool, Args: []*Term{a, b}})
}

func (tb *Table) Or(a, b *Term) *Term {
	if a.IsConst() {
		if a.Val == 1 {
			return tb.T
		}
		return b
	}
	if b.IsConst() {
		if b.Val == 1 {
			return tb.T
		}
		return a
	}
	if a == b {
		return a
	}
	if a.ID > b.ID {
		a, b = b, a
	}
	return tb.mk(&Term{Op: OpOr, Sort: Bool, Args: []*Term{a, b}})
}

func (tb *Table) Eq(a, b *Term) *Term {
	if a.Sort != b.Sort {
		panic(fmt.Sprintf("smt: Eq sort mismatch %v %v", a.Sort, b.Sort))
	}
	if a == b && a.Sort >= 0 {
		return tb.T
	}
	if a.IsConst() && b.IsConst() && a.Sort >= 0 {
		return tb.BoolConst(a.Val == b.Val)
	}
	if a.Sort == Bool {
		if a.IsConst() {
			if a.Val == 1 {
				return b
			}
			return tb.Not(b)
		}
		if b.IsConst() {
			if b.Val == 1 {
				return a
			}
			return tb.Not(a)
		}
	}
	if a.ID > b.ID {
		a, b = b, a
	}
	return tb.mk(&Term{Op: OpEq, Sort: Bool, Args: []*Term{a, b}})
}

func (tb *Table) Ite(c, a, b *Term) *Term {
	if a.Sort != b.Sort {
		panic(fmt.Sprintf("smt: Ite sort mismatch %v %v", a.Sort, b.Sort))
	}
	if c.IsConst() {
		if c.Val == 1 {
			return a
		}
		return b
	}
	if a == b {
		return a
	}
	if a.Sort == Bool {
		if a.IsTrue() && b.IsFalse() {
			return c
		}
		if a.IsFalse() && b.IsTrue() {
			return tb.Not(c)
		}
		if a.IsTrue() {
			return tb.Or(c, b)
		}
		if a.IsFalse() {
			return tb.And(tb.Not(c), b)
		}
		if b.IsFalse() {
			return tb.And(c, a)
		}
		if b.IsTrue() {
			return tb.Or(tb.Not(c), a)
		}
	}
	return tb.mk(&Term{Op: OpIte, Sort: a.Sort, Args: []*Term{c, a, b}})
}

func (tb *Table) bin(op Op, a, b *Term) *Term {
	if a.Sort != b.Sort || a.Sort <= 0 {
		panic(fmt.Sprintf("smt: binop %d sort mismatch %v %v", op, a.Sort, b.Sort))
	}
	w := a.Sort
	if a.IsConst() && b.IsConst() {
		x, y := a.Val, b.Val
		var r uint64
		switch op {
		case OpBvAdd:
			r = x + y
		case OpBvSub:
			r = x - y
		case OpBvMul:
			r = x * y
		case OpBvUDiv:
			if y == 0 {
				r = mask(w)
			} else {
				r = x / y
			}
		case OpBvURem:
			if y == 0 {
				r = x
			} else {
				r = x % y
			}
		case OpBvSDiv:
			sx, sy := sext64(x, w), sext64(y, w)
			if sy == 0 {
				if sx >= 0 {
					r = mask(w)
				} else {
					r = 1
				}
			} else if sy == -1 {
				r = uint64(-sx)
			} else {
				r = uint64(sx / sy)
			}
		case OpBvSRem:
			sx, sy := sext64(x, w), sext64(y, w)
			if sy == 0 {
				r = x
			} else if sy == -1 {
				r = 0
			} else {
				r = uint64(sx % sy)
			}
		case OpBvAnd:
			r = x & y
		case OpBvOr:
			r = x | y
		case OpBvXor:
			r = x ^ y
		case OpBvShl:
			if y >= uint64(w) {
				r = 0
			} else {
				r = x << y
			}
		case OpBvLshr:
			if y >= uint64(w) {
				r = 0
			} else {
				r = x >> y
			}
		case OpBvAshr:
			sx := sext64(x, w)
			if y >= uint64(w) {
				y = uint64(w) - 1
			}
			r = uint64(sx >> y)
		default:
			panic("smt: bin fold")
		}
		return tb.BV(r, w)
	}
	// light algebraic simplifications
	switch op {
	case OpBvAdd, OpBvOr, OpBvXor:
		if a.IsConst() && a.Val == 0 {
			return b
		}
		if b.IsConst() && b.Val == 0 {
			return a
		}
	case OpBvSub, OpBvShl, OpBvLshr, OpBvAshr:
		if b.IsConst() && b.Val == 0 {
			return a
		}
	case OpBvAnd:
		if a.IsConst() && a.Val == 0 || b.IsConst() && b.Val == 0 {
			return tb.BV(0, w)
		}
		if a.IsConst() && a.Val == mask(w) {
			return b
		}
		if b.IsConst() && b.Val == mask(w) {
			return a
		}
	case OpBvMul:
		if a.IsConst() && a.Val == 1 {
			return b
		}
		if b.IsConst() && b.Val == 1 {
			return a
		}
		if a.IsConst() && a.Val == 0 || b.IsConst() && b.Val == 0 {
			return tb.BV(0, w)
		}
	}
	switch op {
	case OpBvAdd, OpBvMul, OpBvAnd, OpBvOr, OpBvXor:
		if a.ID > b.ID {
			a, b = b, a
		}
	}
	return tb.mk(&Term{Op: op, Sort: w, Args: []*Term{a, b}})
}

func (tb *Table) BvAdd(a, b *Term) *Term  { return tb.bin(OpBvAdd, a, b) }
func (tb *Table) BvSub(a, b *Term) *Term  { return tb.bin(OpBvSub, a, b) }
func (tb *Table) BvMul(a, b *Term) *Term  { return tb.bin(OpBvMul, a, b) }
func (tb *Table) BvUDiv(a, b *Term) *Term { return tb.bin(OpBvUDiv, a, b) }
func (tb *Table) BvURem(a, b *Term) *Term { return tb.bin(OpBvURem, a, b) }
func (tb *Table) BvSDiv(a, b *Term) *Term { return tb.bin(OpBvSDiv, a, b) }
func (tb *Table) BvSRem(a, b *Term) *Term { return tb.bin(OpBvSRem, a, b) }
func (tb *Table) BvAnd(a, b *Term) *Term  { return tb.bin(OpBvAnd, a, b) }
func (tb *Table) BvOr(a, b *Term) *Term   { return tb.bin(OpBvOr, a, b) }
func (tb *Table) BvXor(a, b *Term) *Term  { return tb.bin(OpBvXor, a, b) }
func (tb *Table) BvShl(a, b *Term) *Term  { return tb.bin(OpBvShl, a, b) }
func (tb *Table) BvLshr(a, b *Term) *Term { return tb.bin(OpBvLshr, a, b) }
func (tb *Table) BvAshr(a, b *Term) *Term { return tb.bin(OpBvAshr, a, b) }

func (tb *Table) BvNot(a *Term) *Term {
	if a.IsConst() {
		return tb.BV(^a.Val, a.Sort)
	}
	return tb.mk(&Term{Op: OpBvNot, Sort: a.Sort, Args: []*Term{a}})
}
func (tb *Table) BvNeg(a *Term) *Term {
	if a.IsConst() {
		return tb.BV(-a.Val, a.Sort)
	}
	return tb.mk(&Term{Op: OpBvNeg, Sort: a.Sort, Args: []*Term{a}})
}

func (tb *Table) cmp(op Op, a, b *Term) *Term {
	if a.Sort != b.Sort || a.Sort <= 0 {
		panic(fmt.Sprintf("smt: cmp sort mismatch %v %v", a.Sort, b.Sort))
	}
	w := a.Sort
	if a.IsConst() && b.IsConst() {
		var r bool
		switch op {
		case OpBvUlt:
			r = a.Val < b.Val
		case OpBvUle:
			r = a.Val <= b.Val
		case OpBvSlt:
			r = sext64(a.Val, w) < sext64(b.Val, w)
		case OpBvSle:
			r = sext64(a.Val, w) <= sext64(b.Val, w)
		}
		return tb.BoolConst(r)
	}
	if a == b {
		return tb.BoolConst(op == OpBvUle || op == OpBvSle)
	}
	// range-based folding for zero-extended bytes compared with constants
	if op == OpBvUlt || op == OpBvUle {
		if b.IsConst() {
			if hi, ok := a.umax(); ok {
				if op == OpBvUlt && hi < b.Val || op == OpBvUle && hi <= b.Val {
					return tb.T
				}
			}
			if op == OpBvUlt && b.Val == 0 {
				return tb.F
			}
		}
		if a.IsConst() {
			if hi, ok := b.umax(); ok {
				if op == OpBvUlt && a.Val >= hi || op == OpBvUle && a.Val > hi {
					return tb.F
				}
			}
			if op == OpBvUle && a.Val == 0 {
				return tb.T
			}
		}
	}
	return tb.mk(&Term{Op: op, Sort: Bool, Args: []*Term{a, b}})
}

// umax returns a cheap syntactic upper bound on the unsigned value of t.
func (t *Term) umax() (uint64, bool) {
	switch t.Op {
	case OpConst:
		return t.Val, true
	case OpZext:
		return mask(t.Args[0].Sort), true
	case OpBvAnd:
		for _, a := range t.Args {
			if a.IsConst() {
				return a.Val, true
			}
		}
	}
	return 0, false
}

func (tb *Table) BvUlt(a, b *Term) *Term { return tb.cmp(OpBvUlt, a, b) }
func (tb *Table) BvUle(a, b *Term) *Term { return tb.cmp(OpBvUle, a, b) }
func (tb *Table) BvSlt(a, b *Term) *Term {
	// signed compare of two provably small non-negative values == unsigned compare
	return tb.cmp(OpBvSlt, a, b)
}
func (tb *Table) BvSle(a, b *Term) *Term { return tb.cmp(OpBvSle, a, b) }

func (tb *Table) Zext(a *Term, w Sort) *Term {
	if a.Sort == w {
		return a
	}
	if a.Sort > w {
		panic("smt: zext to narrower")
	}
	if a.IsConst() {
		return tb.BV(a.Val, w)
	}
	return tb.mk(&Term{Op: OpZext, Sort: w, Args: []*Term{a}})
}

func (tb *Table) Sext(a *Term, w Sort) *Term {
	if a.Sort == w {
		return a
	}
	if a.Sort > w {
		panic("smt: sext to narrower")
	}
	if a.IsConst() {
		return tb.BV(uint64(sext64(a.Val, a.Sort)), w)
	}
	return tb.mk(&Term{Op: OpSext, Sort: w, Args: []*Term{a}})
}

// Extract returns bits [lo+w-1:lo] of a.
func (tb *Table) Extract(a *Term, lo int, w Sort) *Term {
	if lo == 0 && a.Sort == w {
		return a
	}
	if a.IsConst() {
		return tb.BV(a.Val>>uint(lo), w)
	}
	if lo == 0 && (a.Op == OpZext || a.Op == OpSext) {
		in := a.Args[0]
		if in.Sort == w {
			return in
		}
		if in.Sort > w {
			return tb.Extract(in, 0, w)
		}
		if a.Op == OpZext {
			return tb.Zext(in, w)
		}
		return tb.Sext(in, w)
	}
	return tb.mk(&Term{Op: OpExtract, Sort: w, Aux: lo, Args: []*Term{a}})
}

func (tb *Table) Concat(hi, lo *Term) *Term {
	w := hi.Sort + lo.Sort
	if w > 64 {
		panic("smt: concat wider than 64")
	}
	if hi.IsConst() && lo.IsConst() {
		return tb.BV(hi.Val<<uint(lo.Sort)|lo.Val, w)
	}
	return tb.mk(&Term{Op: OpConcat, Sort: w, Args: []*Term{hi, lo}})
}

// ---- floating point ----

func fval(t *Term) float64 {
	if t.Sort == F32 {
		return float64(math.Float32frombits(uint32(t.Val)))
	}
	return math.Float64frombits(t.Val)
}

func (tb *Table) fconst(s Sort, f float64) *Term {
	if s == F32 {
		return tb.FP32Const(float32(f))
	}
	return tb.FPConst(f)
}

func (tb *Table) FpBin(op Op, a, b *Term) *Term {
	if a.Sort != b.Sort || a.Sort >= 0 {
		panic("smt: fp sort mismatch")
	}
	if a.IsConst() && b.IsConst() {
		x, y := fval(a), fval(b)
		var r float64
		if a.Sort == F32 {
			x32, y32 := float32(x), float32(y)
			switch op {
			case OpFpAdd:
				r = float64(x32 + y32)
			case OpFpSub:
				r = float64(x32 - y32)
			case OpFpMul:
				r = float64(x32 * y32)
			case OpFpDiv:
				r = float64(x32 / y32)
			}
		} else {
			switch op {
			case OpFpAdd:
				r = x + y
			case OpFpSub:
				r = x - y
			case OpFpMul:
				r = x * y
			case OpFpDiv:
				r = x / y
			}
		}
		return tb.fconst(a.Sort, r)
	}
	return tb.mk(&Term{Op: op, Sort: a.Sort, Args: []*Term{a, b}})
}

func (tb *Table) FpNeg(a *Term) *Term {
	if a.IsConst() {
		return tb.fconst(a.Sort, -fval(a))
	}
	return tb.mk(&Term{Op: OpFpNeg, Sort: a.Sort, Args: []*Term{a}})
}

func (tb *Table) FpCmp(op Op, a, b *Term) *Term {
	if a.IsConst() && b.IsConst() {
		x, y := fval(a), fval(b)
		switch op {
		case OpFpLt:
			return tb.BoolConst(x < y)
		case OpFpLe:
			return tb.BoolConst(x <= y)
		case OpFpEq:
			return tb.BoolConst(x == y)
		}
	}
	return tb.mk(&Term{Op: op, Sort: Bool, Args: []*Term{a, b}})
}

func (tb *Table) FpIsNaN(a *Term) *Term {
	if a.IsConst() {
		return tb.BoolConst(math.IsNaN(fval(a)))
	}
	return tb.mk(&Term{Op: OpFpIsNaN, Sort: Bool, Args: []*Term{a}})
}

// IntToFp converts a bit-vector (signed or unsigned) to a float of sort s.
func (tb *Table) IntToFp(a *Term, signed bool, s Sort) *Term {
	if a.IsConst() {
		var f float64
		if signed {
			f = float64(sext64(a.Val, a.Sort))
		} else {
			f = float64(a.Val)
		}
		if s == F32 {
			if signed {
				return tb.FP32Const(float32(sext64(a.Val, a.Sort)))
			}
			return tb.FP32Const(float32(a.Val))
		}
		return tb.FPConst(f)
	}
	op := OpUToFp
	if signed {
		op = OpSToFp
	}
	return tb.mk(&Term{Op: op, Sort: s, Args: []*Term{a}})
}

// FpToInt converts (RTZ) a float to a bit-vector of width w. Go leaves
// out-of-range conversions implementation-defined; so does SMT-LIB.
func (tb *Table) FpToInt(a *Term, signed bool, w Sort) *Term {
	if a.IsConst() {
		f := fval(a)
		if signed {
			return tb.BV(uint64(int64(f)), w)
		}
		return tb.BV(uint64(f), w)
	}
	op := OpFpToUbv
	if signed {
		op = OpFpToSbv
	}
	return tb.mk(&Term{Op: op, Sort: w, Args: []*Term{a}})
}

func (tb *Table) FpToFp(a *Term, s Sort) *Term {
	if a.Sort == s {
		return a
	}
	if a.IsConst() {
		return tb.fconst(s, fval(a))
	}
	return tb.mk(&Term{Op: OpFpToFp, Sort: s, Args: []*Term{a}})
}

// ---- printing ----

func bvLit(v uint64, w Sort) string {
	if w%4 == 0 {
		return fmt.Sprintf("#x%0*x", int(w)/4, v)
	}
	return fmt.Sprintf("#b%0*b", int(w), v)
}

func fpLit(bitsv uint64, s Sort) string {
	if s == F32 {
		b := uint32(bitsv)
		return fmt.Sprintf("(fp #b%b #b%08b #b%023b)", b>>31, (b>>23)&0xff, b&0x7fffff)
	}
	return fmt.Sprintf("(fp #b%b #b%011b #b%052b)", bitsv>>63, (bitsv>>52)&0x7ff, bitsv&((1<<52)-1))
}

var opNames = map[Op]string{
	OpNot: "not", OpAnd: "and", OpOr: "or", OpEq: "=", OpIte: "ite",
	OpBvAdd: "bvadd", OpBvSub: "bvsub", OpBvMul: "bvmul", OpBvUDiv: "bvudiv", OpBvURem: "bvurem",
	OpBvSDiv: "bvsdiv", OpBvSRem: "bvsrem", OpBvAnd: "bvand", OpBvOr: "bvor", OpBvXor: "bvxor",
	OpBvNot: "bvnot", OpBvNeg: "bvneg", OpBvShl: "bvshl", OpBvLshr: "bvlshr", OpBvAshr: "bvashr",
	OpBvUlt: "bvult", OpBvUle: "bvule", OpBvSlt: "bvslt", OpBvSle: "bvsle", OpConcat: "concat",
	OpFpAdd: "fp.add RNE", OpFpSub: "fp.sub RNE", OpFpMul: "fp.mul RNE", OpFpDiv: "fp.div RNE",
	OpFpNeg: "fp.neg", OpFpLt: "fp.lt", OpFpLe: "fp.leq", OpFpEq: "fp.eq", OpFpIsNaN: "fp.isNaN",
}

// ref is how a term is referred to inside other terms.
func (t *Term) ref() string {
	switch t.Op {
	case OpConst:
		switch {
		case t.Sort == Bool:
			if t.Val == 1 {
				return "true"
			}
			return "false"
		case t.Sort < 0:
			return fpLit(t.Val, t.Sort)
		}
		return bvLit(t.Val, t.Sort)
	case OpVar:
		return t.Name
	}
	return "t" + strconv.Itoa(t.ID)
}

// body prints the defining expression of a non-leaf term using refs of args.
func (t *Term) body() string {
	var sb strings.Builder
	switch t.Op {
	case OpZext:
		fmt.Fprintf(&sb, "((_ zero_extend %d) %s)", int(t.Sort-t.Args[0].Sort), t.Args[0].ref())
	case OpSext:
		fmt.Fprintf(&sb, "((_ sign_extend %d) %s)", int(t.Sort-t.Args[0].Sort), t.Args[0].ref())
	case OpExtract:
		fmt.Fprintf(&sb, "((_ extract %d %d) %s)", t.Aux+int(t.Sort)-1, t.Aux, t.Args[0].ref())
	case OpSToFp, OpUToFp, OpFpToFp:
		eb, sbits := 11, 53
		if t.Sort == F32 {
			eb, sbits = 8, 24
		}
		fn := "to_fp"
		if t.Op == OpUToFp {
			fn = "to_fp_unsigned"
		}
		fmt.Fprintf(&sb, "((_ %s %d %d) RNE %s)", fn, eb, sbits, t.Args[0].ref())
	case OpFpToSbv:
		fmt.Fprintf(&sb, "((_ fp.to_sbv %d) RTZ %s)", int(t.Sort), t.Args[0].ref())
	case OpFpToUbv:
		fmt.Fprintf(&sb, "((_ fp.to_ubv %d) RTZ %s)", int(t.Sort), t.Args[0].ref())
	default:
		name, ok := opNames[t.Op]
		if !ok {
			panic(fmt.Sprintf("smt: no printer for op %d", t.Op))
		}
		sb.WriteByte('(')
		sb.WriteString(name)
		for _, a := range t.Args {
			sb.WriteByte(' ')
			sb.WriteString(a.ref())
		}
		sb.WriteByte(')')
	}
	return sb.String()
}

// String prints the full (tree-expanded) term; for debugging and samples only.
func (t *Term) String() string {
	return t.str(0)
}

func (t *Term) str(depth int) string {
	if t.Op == OpConst || t.Op == OpVar {
		return t.ref()
	}
	if depth > 6 {
		return "…"
	}
	var sb strings.Builder
	sb.WriteByte('(')
	if n, ok := opNames[t.Op]; ok {
		sb.WriteString(n)
	} else {
		fmt.Fprintf(&sb, "op%d", t.Op)
	}
	for _, a := range t.Args {
		sb.WriteByte(' ')
		sb.WriteString(a.str(depth + 1))
	}
	sb.WriteByte(')')
	return sb.String()
}

// Eval evaluates t under an assignment of variables (by name). Missing
// variables evaluate to 0. Floating point is supported for the ops folded above.
func (tb *Table) Eval(t *Term, env map[string]uint64) uint64 {
	memo := map[int]uint64{}
	var ev func(t *Term) uint64
	ev = func(t *Term) uint64 {
		if t.Op == OpConst {
			return t.Val
		}
		if t.Op == OpVar {
			return env[t.Name] & func() uint64 {
				if t.Sort > 0 {
					return mask(t.Sort)
				}
				return ^uint64(0)
			}()
		}
		if v, ok := memo[t.ID]; ok {
			return v
		}
		// rebuild with constant args through the folding constructors
		args := make([]*Term, len(t.Args))
		for i, a := range t.Args {
			args[i] = tb.constOf(a.Sort, ev(a))
		}
		r := tb.rebuild(t, args)
		if !r.IsConst() {
			panic(fmt.Sprintf("smt: Eval could not fold op %d", t.Op))
		}
		memo[t.ID] = r.Val
		return r.Val
	}
	return ev(t)
}

func (tb *Table) constOf(s Sort, v uint64) *Term {
	switch {
	case s == Bool:
		return tb.BoolConst(v != 0)
	case s < 0:
		return tb.mk(&Term{Op: OpConst, Sort: s, Val: v})
	}
	return tb.BV(v, s)
}

func (tb *Table) rebuild(t *Term, a []*Term) *Term {
	switch t.Op {
	case OpNot:
		return tb.Not(a[0])
	case OpAnd:
		return tb.And(a[0], a[1])
	case OpOr:
		return tb.Or(a[0], a[1])
	case OpEq:
		if a[0].Sort < 0 {
			return tb.BoolConst(a[0].Val == a[1].Val)
		}
		return tb.Eq(a[0], a[1])
	case OpIte:
		return tb.Ite(a[0], a[1], a[2])
	case OpBvAdd, OpBvSub, OpBvMul, OpBvUDiv, OpBvURem, OpBvSDiv, OpBvSRem, OpBvAnd, OpBvOr, OpBvXor, OpBvShl, OpBvLshr, OpBvAshr:
		return tb.bin(t.Op, a[0], a[1])
	case OpBvNot:
		return tb.BvNot(a[0])
	case OpBvNeg:
		return tb.BvNeg(a[0])
	case OpBvUlt, OpBvUle, OpBvSlt, OpBvSle:
		return tb.cmp(t.Op, a[0], a[1])
	case OpZext:
		return tb.Zext(a[0], t.Sort)
	case OpSext:
		return tb.Sext(a[0], t.Sort)
	case OpExtract:
		return tb.Extract(a[0], t.Aux, t.Sort)
	case OpConcat:
		return tb.Concat(a[0], a[1])
	case OpFpAdd, OpFpSub, OpFpMul, OpFpDiv:
		return tb.FpBin(t.Op, a[0], a[1])
	case OpFpNeg:
		return tb.FpNeg(a[0])
	case OpFpLt, OpFpLe, OpFpEq:
		return tb.FpCmp(t.Op, a[0], a[1])
	case OpFpIsNaN:
		return tb.FpIsNaN(a[0])
	case OpSToFp:
		return tb.IntToFp(a[0], true, t.Sort)
	case OpUToFp:
		return tb.IntToFp(a[0], false, t.Sort)
	case OpFpToSbv:
		return tb.FpToInt(a[0], true, t.Sort)
	case OpFpToUbv:
		return tb.FpToInt(a[0], false, t.Sort)
	case OpFpToFp:
		return tb.FpToFp(a[0], t.Sort)
	}
	panic(fmt.Sprintf("smt: rebuild op %d", t.Op))
}

var _ = bits.Len
