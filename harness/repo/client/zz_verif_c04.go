//go:build verif

package client

// C04 — client and server agree: what the caller sets is what the handler gets,
// and what the handler answers is what the caller's reader sees. The client
// transport and the server middleware are built from the same description and
// joined by an in-memory wire (request target text, headers, body bytes).

import (
	"io"
	"net/http"
	"net/url"

	"github.com/go-openapi/analysis"
	"github.com/go-openapi/loads"
	"github.com/go-openapi/runtime"
	"github.com/go-openapi/runtime/middleware"
	"github.com/go-openapi/runtime/middleware/untyped"
	"github.com/go-openapi/spec"
	"github.com/go-openapi/strfmt"

	zv "github.com/go-openapi/runtime/internal/zzverif"
)

type c04Desc struct {
	basePath string
	pattern  string
	form     bool // the operation takes an urlencoded form field instead of a json body
}

var c04Descs = []c04Desc{
	{"/", "/items/{id}", false},
	{"/api", "/items/{id}/sub", true},
	{"/api", "/{id}", false},
	{"/", "/items/{id}/", true},
}

// what the server-side handler observed / answers (per path)
type c04Script struct {
	ran     int
	params  map[string]interface{}
	status  int
	reply   string
	body    string
	errors  []error
}

var c04S *c04Script

type c04Setup struct {
	handler http.Handler
}

func c04Param(name, in string, required bool) spec.Parameter {
	p := spec.Parameter{}
	p.Name, p.In, p.Type, p.Required = name, in, "string", required
	return p
}

func c04Build(di int) *c04Setup {
	d := c04Descs[di]
	sw := &spec.Swagger{}
	sw.Swagger = "2.0"
	sw.BasePath = d.basePath
	sw.Info = &spec.Info{}
	sw.Info.Title, sw.Info.Version = "c04", "1"
	op := &spec.Operation{}
	op.ID = "theOp"
	op.Produces = []string{"text/plain"}
	op.Parameters = []spec.Parameter{c04Param("id", "path", true), c04Param("q", "query", false), c04Param("X-Note", "header", false)}
	rep := c04Param("r", "query", false)
	rep.Type, rep.CollectionFormat = "array", "multi"
	rep.Items = &spec.Items{}
	rep.Items.Type = "string"
	op.Parameters = append(op.Parameters, rep)
	if d.form {
		op.Consumes = []string{"application/x-www-form-urlencoded"}
		op.Parameters = append(op.Parameters, c04Param("f", "formData", false))
	} else {
		op.Consumes = []string{"application/json"}
	}
	op.Responses = &spec.Responses{}
	op.Responses.StatusCodeResponses = map[int]spec.Response{200: {}}
	sw.Paths = &spec.Paths{Paths: map[string]spec.PathItem{}}
	pi := spec.PathItem{}
	pi.Post = op
	sw.Paths.Paths[d.pattern] = pi

	doc := &loads.Document{}
	zv.SetField(doc, "spec", sw)
	zv.SetField(doc, "origSpec", sw)
	doc.Analyzer = analysis.New(sw)
	api := untyped.NewAPI(doc)
	api.RegisterProducer("text/plain", runtime.TextProducer())
	api.RegisterConsumer("application/x-www-form-urlencoded", runtime.DiscardConsumer)
	api.RegisterConsumer("application/json", runtime.DiscardConsumer)
	api.RegisterOperation("POST", d.pattern, runtime.OperationHandlerFunc(func(params interface{}) (interface{}, error) {
		c04S.ran++
		c04S.params, _ = params.(map[string]interface{})
		return middleware.ResponderFunc(func(rw http.ResponseWriter, _ runtime.Producer) {
			rw.Header().Set("X-Reply", c04S.reply)
			rw.WriteHeader(c04S.status)
			_, _ = rw.Write([]byte(c04S.body))
		}), nil
	}))
	api.ServeError = func(rw http.ResponseWriter, r *http.Request, err error) {
		c04S.errors = append(c04S.errors, err)
		rw.WriteHeader(599)
	}
	ctx := middleware.NewContext(doc, api, nil)
	return &c04Setup{handler: ctx.RoutesHandler(nil)}
}

type c04Recorder struct {
	hdr    http.Header
	status int
	body   []byte
}

func (w *c04Recorder) Header() http.Header { return w.hdr }
func (w *c04Recorder) WriteHeader(c int) {
	if w.status == 0 {
		w.status = c
	}
}
func (w *c04Recorder) Write(p []byte) (int, error) {
	if w.status == 0 {
		w.status = 200
	}
	w.body = append(w.body, p...)
	return len(p), nil
}

// c04Wire is the in-memory wire: the request target travels as text and is
// parsed the way a server parses a request line; headers and body bytes are
// handed over as they are.
type c04Wire struct {
	handler http.Handler
	target  string
	calls   int
}

func (t *c04Wire) RoundTrip(req *http.Request) (*http.Response, error) {
	t.calls++
	t.target = req.URL.RequestURI()
	u, err := url.ParseRequestURI(t.target)
	if err != nil {
		return nil, err
	}
	var body []byte
	if req.Body != nil {
		body, err = io.ReadAll(req.Body)
		_ = req.Body.Close()
		if err != nil {
			return nil, err
		}
	}
	sreq := &http.Request{Method: req.Method, URL: u, RequestURI: t.target, Proto: "HTTP/1.1", ProtoMajor: 1, ProtoMinor: 1,
		Header: req.Header.Clone(), Host: req.Host, ContentLength: int64(len(body)), Body: &c13BodyT{data: body}}
	if len(body) == 0 {
		sreq.Body = http.NoBody
	}
	rec := &c04Recorder{hdr: http.Header{}}
	t.handler.ServeHTTP(rec, sreq)
	if rec.status == 0 {
		rec.status = 200
	}
	return &http.Response{StatusCode: rec.status, Status: "status", Header: rec.hdr, Body: &c13BodyT{data: rec.body},
		ContentLength: int64(len(rec.body)), Request: req, ProtoMajor: 1, ProtoMinor: 1}, nil
}

func c04NoCRLF(s string) bool {
	ok := true
	for i := 0; i < len(s); i++ {
		ok = zv.And(ok, zv.And(s[i] != '\r', s[i] != '\n'))
	}
	return ok
}

// VerifC04RoundTrip: one call end to end.
func VerifC04RoundTrip() {
	zv.Stub("(*net/http.Client).Do", c13Do)
	di := zv.Choose("description", zv.Param("descs", len(c04Descs)))
	d := c04Descs[di]
	su := zv.Cached("c04-"+string(rune('a'+di)), func() interface{} { return c04Build(di) }).(*c04Setup)
	c04S = &c04Script{status: 200, reply: "ok", body: "fine"}

	// the values the caller supplies: one position is arbitrary at a time, the
	// others hold fixed texts full of characters that need escaping
	id, q, note, f := "a b+c%2F/d?e#f", "x y+z&w=1;%41", "Note: v", "p q+r&s=%zz"
	var rep []string
	hasQ, hasNote, hasF := true, true, d.form
	n := zv.Param("othlen", 1)
	pos := zv.Choose("arbitrary-position", 7)
	sameNameKey := false
	switch pos {
	case 6: // a path value that looks percent-encoded itself
		if zv.Param("hexlen", 1) == 1 {
			id = "%4" + zv.StringN("id-hex", 1)
		} else {
			id = "%" + zv.StringN("id-hex", 2)
		}
	case 0:
		id = zv.String("id", zv.Param("vallen", 2))
		zv.Assume(len(id) > 0)
		zv.Assume(!zv.StrEq(id, ".") && !zv.StrEq(id, ".."))
	case 1:
		q = zv.String("q", n)
	case 2:
		note = zv.String("note", n)
		zv.Assume(c04NoCRLF(note))
		// the wire trims optional white space around header values
		if len(note) > 0 {
			zv.Assume(note[0] != ' ' && note[0] != '\t' && note[len(note)-1] != ' ' && note[len(note)-1] != '\t')
		}
	case 3:
		if !d.form {
			return
		}
		f = zv.String("f", n)
		// an API key travelling in the query under the very name of the form field
		sameNameKey = zv.Choose("query-key-named-like-the-form-field", 2) == 1
	case 4: // repeated query values
		rep = []string{zv.String("r0", 1), zv.String("r1", 1)}
	default: // what the handler answers
		c04S.status = 200 + zv.Choose("status", 3)*101 // 200, 301, 402
		c04S.reply = zv.String("reply", 1)
		zv.Assume(c04NoCRLF(c04S.reply))
		if len(c04S.reply) > 0 {
			zv.Assume(c04S.reply[0] != ' ' && c04S.reply[0] != '\t')
		}
		c04S.body = zv.String("body", n)
		hasQ = zv.Choose("has-q", 2) == 1
		hasNote = zv.Choose("has-note", 2) == 1
	}

	wire := &c04Wire{handler: su.handler}
	rt := New("api.example.com", d.basePath, []string{"http"})
	rt.Transport = wire
	rt.Consumers = map[string]runtime.Consumer{"text/plain": runtime.TextConsumer(), "*/*": runtime.ByteStreamConsumer()}
	rt.Producers["application/x-www-form-urlencoded"] = runtime.DiscardProducer
	if pos == 1 && zv.Choose("default-auth", 2) == 1 {
		rt.DefaultAuthentication = APIKeyAuth("api_key", "query", "k e+y")
	}
	if sameNameKey {
		rt.DefaultAuthentication = APIKeyAuth("f", "query", "the-api-key")
	}
	var gotCode int
	var gotReply string
	var gotBody []byte
	consumes := "application/json"
	if d.form {
		consumes = "application/x-www-form-urlencoded"
	}
	op := &runtime.ClientOperation{ID: "theOp", Method: "POST", PathPattern: d.pattern, Schemes: []string{"http"},
		ConsumesMediaTypes: []string{consumes}, ProducesMediaTypes: []string{"text/plain"},
		Params: runtime.ClientRequestWriterFunc(func(req runtime.ClientRequest, _ strfmt.Registry) error {
			_ = req.SetPathParam("id", id)
			if hasQ {
				_ = req.SetQueryParam("q", q)
			}
			if hasNote {
				_ = req.SetHeaderParam("x-note", note)
			}
			if hasF {
				_ = req.SetFormParam("f", f)
			}
			if rep != nil {
				_ = req.SetQueryParam("r", rep...)
			}
			return nil
		}),
		Reader: runtime.ClientResponseReaderFunc(func(r runtime.ClientResponse, c runtime.Consumer) (interface{}, error) {
			gotCode = r.Code()
			gotReply = r.GetHeader("X-Reply")
			gotBody, _ = io.ReadAll(r.Body())
			return "read", nil
		})}
	res, err := rt.Submit(op)

	zv.Assert("call-completes", err == nil && res == "read")
	zv.Assert("one-request-on-the-wire", wire.calls == 1)
	// known finding: an operation whose template ends in '/' is never routed by
	// the server (its handler is looked up under the cleaned path) while the
	// client keeps the slash
	trailing := len(d.pattern) > 1 && d.pattern[len(d.pattern)-1] == '/'
	zv.AssertExcept("the-operations-handler-runs-once", c04S.ran == 1, trailing, "KF-C04-trailing-slash-template")
	if c04S.ran != 1 || c04S.params == nil {
		return
	}
	zv.Assert("no-server-side-error", len(c04S.errors) == 0)
	zv.Reach("served")
	p := c04S.params
	sv := func(name string) (string, bool) {
		s, ok := p[name].(string)
		return s, ok
	}
	if v, ok := sv("id"); true {
		zv.Assert("path-value-arrives-unchanged", ok && zv.StrEq(v, id))
	}
	if v, ok := sv("q"); true {
		want := ""
		if hasQ {
			want = q
		}
		zv.Assert("query-value-arrives-unchanged", ok && zv.StrEq(v, want))
	}
	if v, ok := sv("X-Note"); true {
		want := ""
		if hasNote {
			want = note
		}
		zv.Assert("header-value-arrives-unchanged", ok && zv.StrEq(v, want))
	}
	if d.form {
		v, ok := sv("f")
		zv.Assert("form-value-arrives-unchanged", ok && zv.StrEq(v, f))
	}
	if rep != nil {
		rv, ok := p["r"].([]string)
		zv.Assert("repeated-query-values-arrive-in-order", ok && len(rv) == 2)
		if ok && len(rv) == 2 {
			zv.Assert("repeated-query-value-unchanged", zv.And(zv.StrEq(rv[0], rep[0]), zv.StrEq(rv[1], rep[1])))
		}
	}
	// the answer reaches the caller's reader intact
	zv.Assert("status-reaches-the-reader", gotCode == c04S.status)
	zv.Assert("header-reaches-the-reader", zv.StrEq(gotReply, c04S.reply))
	zv.Assert("body-reaches-the-reader", zv.BytesEq(gotBody, []byte(c04S.body)))
}
