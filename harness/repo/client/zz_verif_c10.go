//go:build verif

package client

// C10 — client URLs: escaped substitution, preserved shape, stated query precedence.

import (
	"net/url"
	"path"
	"strings"

	"github.com/go-openapi/runtime"
	"github.com/go-openapi/strfmt"

	zv "github.com/go-openapi/runtime/internal/zzverif"
)

var c10Bases = []string{"/api", "/api?x=1&z=/srv/", "/", "/api/", "api"}
var c10Patterns = []string{"/p/{a}/", "/p/{a}/q/{b}", "/p/{a}?x=2&y=3", "/{a}{b}", "/p/{a}", "/p/{b}/{a}"}

func c10PathOnly(s string) string {
	if k := strings.IndexByte(s, '?'); k >= 0 {
		return s[:k]
	}
	return s
}

// c10Subst substitutes placeholders once, left to right, never re-scanning values.
func c10Subst(seg string, vals map[string]string) string {
	out := ""
	for i := 0; i < len(seg); {
		if seg[i] == '{' {
			if j := strings.IndexByte(seg[i:], '}'); j > 0 {
				name := seg[i+1 : i+j]
				if v, ok := vals[name]; ok {
					out += v
					i += j + 1
					continue
				}
			}
		}
		out += seg[i : i+1]
		i++
	}
	return out
}

// VerifC10URL: shape of the built URL path and query precedence.
func VerifC10URL() {
	base := c10Bases[zv.Choose("base", zv.Param("bases", len(c10Bases)))]
	pattern := c10Patterns[zv.Choose("pattern", zv.Param("patterns", len(c10Patterns)))]
	n := zv.Param("vallen", 2)
	var va string
	if zv.Choose("aform", 2) == 1 {
		va = "{b}" // a value that looks like another placeholder
	} else {
		va = zv.String("a", n)
	}
	vb := "B"
	switch zv.Choose("bform", zv.Param("bforms", 2)) {
	case 1:
		vb = "{a}"
	case 2:
		vb = zv.String("b", 1)
	}
	callerX := 0 // 0 not set, 1 set to a symbolic value, 2 set to ""
	if strings.Contains(base, "?") || strings.Contains(pattern, "?") {
		callerX = zv.Choose("callerX", 3)
	}
	xv := ""
	if callerX == 1 {
		xv = zv.String("x", 1)
	}
	w := runtime.ClientRequestWriterFunc(func(req runtime.ClientRequest, _ strfmt.Registry) error {
		if zv.Choose("setorder", 2) == 0 {
			_ = req.SetPathParam("a", va)
			_ = req.SetPathParam("b", vb)
		} else {
			_ = req.SetPathParam("b", vb)
			_ = req.SetPathParam("a", va)
		}
		if callerX != 0 {
			_ = req.SetQueryParam("x", xv)
		}
		return nil
	})
	// through the transport as a caller builds it (New roots a relative base path)
	rt := New("h.example", base, []string{"http"})
	req, err := rt.CreateHttpRequest(&runtime.ClientOperation{ID: "op", Method: "GET", PathPattern: pattern,
		Schemes: []string{"http"}, ConsumesMediaTypes: []string{"application/json"}, Params: w})
	if err != nil {
		println("C10 build error:", err.Error())
	}
	zv.Assert("url-builds", err == nil && req != nil)
	if err != nil || req == nil {
		return
	}
	zv.Reach("built")
	vals := map[string]string{"a": va, "b": vb}
	pp := c10PathOnly(pattern)
	rooted := c10PathOnly(base)
	if !strings.HasPrefix(rooted, "/") {
		rooted = "/" + rooted
	}
	tplPath := path.Join(rooted, pp)
	if len(pp) > 1 && pp[len(pp)-1] == '/' {
		tplPath += "/"
		zv.Reach("trailing-slash")
	}
	got := req.URL.EscapedPath()
	tsegs := strings.Split(tplPath, "/")
	gsegs := strings.Split(got, "/")
	zv.Assert("escaped-path-has-exactly-the-patterns-segments", len(gsegs) == len(tsegs))
	if len(gsegs) != len(tsegs) {
		return
	}
	for k := range tsegs {
		want := c10Subst(tsegs[k], vals)
		dec, derr := url.PathUnescape(gsegs[k])
		zv.Assert("segment-is-validly-escaped", derr == nil)
		zv.Assert("segment-decodes-to-the-substituted-text", zv.StrEq(dec, want))
		for j := 0; j < len(gsegs[k]); j++ {
			c := gsegs[k][j]
			zv.Assert("no-raw-query-or-fragment-in-path", zv.And(c != '?', c != '#'))
		}
	}
	zv.Assert("value-adds-no-fragment", req.URL.Fragment == "" && req.URL.RawFragment == "")

	// query precedence: caller over pattern over base path
	q, qerr := url.ParseQuery(req.URL.RawQuery)
	zv.Assert("query-parses", qerr == nil)
	baseQ, patQ := url.Values{}, url.Values{}
	if k := strings.IndexByte(base, '?'); k >= 0 {
		baseQ, _ = url.ParseQuery(base[k+1:])
	}
	if k := strings.IndexByte(pattern, '?'); k >= 0 {
		patQ, _ = url.ParseQuery(pattern[k+1:])
	}
	for _, name := range []string{"x", "y", "z"} {
		var want []string
		switch {
		case name == "x" && callerX != 0:
			want = []string{xv}
		case len(patQ[name]) > 0:
			want = patQ[name]
		case len(baseQ[name]) > 0:
			want = baseQ[name]
		}
		zv.Assert("query-param-count", len(q[name]) == len(want))
		if len(q[name]) == len(want) {
			for k := range want {
				zv.Assert("query-precedence-caller-pattern-base", zv.StrEq(q[name][k], want[k]))
			}
		}
	}
	zv.Observe("path", got)
}

// VerifC10Scheme: https whenever it is among several offered schemes.
func VerifC10Scheme() {
	all := []string{"http", "https", "ws", "wss"}
	mk := func(name string) []string {
		n := zv.Choose(name+".n", 4)
		var l []string
		for k := 0; k < n; k++ {
			l = append(l, all[zv.Choose(name+".s", len(all))])
		}
		return l
	}
	rtSchemes, opSchemes := mk("rt"), mk("op")
	rt := &Runtime{schemes: rtSchemes}
	got := rt.pickScheme(opSchemes)
	l := rtSchemes
	if len(l) == 0 {
		l = opSchemes
	}
	want := "http"
	if len(l) > 0 {
		want = l[0]
		for _, s := range l {
			if s == "https" {
				want = "https"
			}
		}
	}
	zv.Assert("https-preferred-else-first-offered", got == want)
	zv.Observe("scheme", got)
}
