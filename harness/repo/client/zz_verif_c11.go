//go:build verif

package client

// C11 — client bodies: the bytes sent are the payload, and what an auth writer
// saw is what is sent.

import (
	"bytes"
	"io"
	"mime"
	"mime/multipart"
	"net/http"
	"net/url"
	"path/filepath"

	"github.com/go-openapi/runtime"
	"github.com/go-openapi/strfmt"

	zv "github.com/go-openapi/runtime/internal/zzverif"
)

const c11Boundary = "c11boundaryc11boundaryc11boundaryc11boundaryc11boundaryc11bound"

// c11Stream: a reader payload / upload source delivering its content in chunks.
type c11Stream struct {
	name   string
	data   []byte
	pos    int
	chunk  int
	closed int
}

func (s *c11Stream) Read(p []byte) (int, error) {
	if s.pos >= len(s.data) {
		return 0, io.EOF
	}
	n := len(p)
	if n > s.chunk {
		n = s.chunk
	}
	n = copy(p[:n], s.data[s.pos:])
	s.pos += n
	return n, nil
}

// c11Plain hides Close (payload kind io.Reader).
type c11Plain struct{ s *c11Stream }

func (p c11Plain) Read(b []byte) (int, error) { return p.s.Read(b) }

type c11File struct {
	c11Stream
	declared string // "" = no ContentType method semantics (see c11Typed)
}

func (f *c11File) Name() string { return f.name }
func (f *c11File) Close() error { f.closed++; return nil }

// c11Typed is an upload source that declares its content type.
type c11Typed struct{ *c11File }

func (t c11Typed) ContentType() string { return t.declared }

func c11ReadAll(r io.Reader) []byte {
	if r == nil {
		return nil
	}
	b, err := io.ReadAll(r)
	if err != nil {
		return nil
	}
	return b
}

func c11Printable(s string) bool {
	ok := true
	for i := 0; i < len(s); i++ {
		ok = zv.And(ok, zv.And(s[i] >= 0x20, s[i] < 0x7f))
	}
	return ok
}

type c11Part struct {
	form, file, ctype string
	content           []byte
}

// c11Parse reads the multipart document with the standard reader.
func c11Parse(body []byte, boundary string) ([]c11Part, bool) {
	mr := multipart.NewReader(&c11Stream{data: body, chunk: len(body) + 1}, boundary)
	var parts []c11Part
	for {
		p, err := mr.NextRawPart()
		if err == io.EOF {
			return parts, true
		}
		if err != nil {
			return parts, false
		}
		content, err := io.ReadAll(p)
		if err != nil {
			return parts, false
		}
		parts = append(parts, c11Part{form: p.FormName(), file: p.FileName(), ctype: p.Header.Get("Content-Type"), content: content})
	}
}

// VerifC11Body: every payload kind; GetBody asked 0, 1 or 2 times.
func VerifC11Body() {
	zv.Stub("mime/multipart.randomBoundary", func() string { return c11Boundary })
	kind := zv.Choose("payload", 9)
	mediaType := "application/octet-stream"
	var payload interface{}
	var value string
	var stream *c11Stream
	var fields []string
	var files []*c11File
	fileFocus := 0
	switch kind {
	case 1: // a value through the producer registered for the media type
		mediaType = "application/vnd.c11"
		value = zv.String("value", zv.Param("vallen", 2))
		payload = &value
	case 2, 3: // io.Reader / io.ReadCloser
		stream = &c11Stream{data: []byte(zv.String("content", zv.Param("contentlen", 3))), chunk: 1 + zv.Choose("chunk", 2)}
		if kind == 2 {
			payload = c11Plain{stream}
		} else {
			payload = &c11File{c11Stream: *stream}
			stream = &payload.(*c11File).c11Stream
		}
	case 7, 8: // standard-library readers as payload: *bytes.Buffer, *bytes.Reader
		stream = &c11Stream{data: []byte(zv.String("content", zv.Param("contentlen", 3)))}
		if kind == 7 {
			payload = bytes.NewBuffer(append([]byte{}, stream.data...))
		} else {
			payload = bytes.NewReader(stream.data)
		}
	case 4: // form fields only
		mediaType = "application/x-www-form-urlencoded"
		fields = []string{zv.String("field0", zv.Param("vallen", 2))}
		if zv.Choose("two-values", 2) == 1 {
			fields = append(fields, zv.String("field1", 1))
		}
	case 5, 6: // files only / a field and files
		mediaType = "multipart/form-data"
		if kind == 6 {
			fields = []string{zv.String("field0", zv.Param("vallen", 2))}
		}
		fileFocus = zv.Choose("file-focus", 3)
		switch fileFocus {
		case 0: // arbitrary content, sniffed type
			f := &c11File{}
			f.name, f.chunk = "dir/sub/f.txt", 1+zv.Choose("chunk", 2)*600
			f.data = []byte(zv.String("content", zv.Param("contentlen", 3)))
			files = append(files, f)
		case 1: // arbitrary printable name, declared type
			f := &c11File{declared: "text/x-c11"}
			f.name, f.chunk = zv.String("name", zv.Param("namelen", 3)), 600
			zv.Assume(c11Printable(f.name))
			f.data = []byte("hello")
			files = append(files, f)
		default: // two files around the sniffing window, sniffed types
			sizes := []int{5, 511, 512, 513, 700}
			for k := 0; k < 2; k++ {
				f := &c11File{}
				f.name, f.chunk = []string{"a.txt", "/abs/b.bin"}[k], 1000
				n := sizes[zv.Choose("size", len(sizes))]
				f.data = make([]byte, n)
				bin := zv.Choose("binary", 2) == 1
				for i := range f.data {
					if bin {
						f.data[i] = byte(i % 7)
					} else {
						f.data[i] = 'a' + byte(i%26)
					}
				}
				files = append(files, f)
			}
		}
	}
	getBodyCalls := zv.Choose("auth-asks-for-the-body", 4) - 1 // -1: no auth writer
	var seen [][]byte
	var auth runtime.ClientAuthInfoWriter
	if getBodyCalls >= 0 {
		auth = runtime.ClientAuthInfoWriterFunc(func(req runtime.ClientRequest, _ strfmt.Registry) error {
			for k := 0; k < getBodyCalls; k++ {
				seen = append(seen, append([]byte{}, req.GetBody()...))
			}
			return nil
		})
	}
	producers := map[string]runtime.Producer{
		"application/vnd.c11": runtime.ProducerFunc(func(w io.Writer, v interface{}) error {
			_, err := w.Write([]byte("<" + *v.(*string) + ">"))
			return err
		}),
		"application/octet-stream": runtime.ByteStreamProducer(),
	}
	w := runtime.ClientRequestWriterFunc(func(req runtime.ClientRequest, _ strfmt.Registry) error {
		if payload != nil {
			_ = req.SetBodyParam(payload)
		}
		if len(fields) > 0 {
			_ = req.SetFormParam("note", fields...)
		}
		if len(files) > 0 {
			var fs []runtime.NamedReadCloser
			for _, f := range files {
				if f.declared != "" {
					fs = append(fs, c11Typed{f})
				} else {
					fs = append(fs, f)
				}
			}
			_ = req.SetFileParam("upload", fs...)
		}
		return nil
	})
	// payloads also travel with methods that usually carry none (a search sent as
	// GET with a body): the header still has to describe what is sent
	method := "POST"
	if kind >= 1 && kind <= 3 || kind == 7 || kind == 8 {
		method = []string{"POST", "GET", "OPTIONS"}[zv.Choose("method", 3)]
	}
	r := newRequest(method, "/things", w)
	req, err := r.buildHTTP(mediaType, "/", producers, nil, auth)
	zv.Assert("request-builds", err == nil && req != nil)
	if err != nil || req == nil {
		return
	}
	sent := c11ReadAll(req.Body)
	left := zv.Goroutines()
	zv.Assert("no-goroutine-left-behind", left == 0)
	ct := req.Header.Get("Content-Type")

	// what auth saw is what is sent, however often it asked
	for _, b := range seen {
		zv.Reach("auth-saw-body")
		zv.Assert("bytes-shown-to-auth-are-the-bytes-sent", zv.BytesEq(b, sent))
	}

	switch kind {
	case 0:
		zv.Reach("no-payload")
		zv.Assert("no-payload-no-body", len(sent) == 0)
	case 1:
		zv.Reach("produced")
		zv.Assert("body-is-the-producers-encoding", zv.BytesEq(sent, []byte("<"+value+">")))
		zv.Assert("content-type-is-the-media-type", ct == mediaType)
	case 2, 3, 7, 8:
		zv.Reach("streamed")
		zv.Assert("body-is-exactly-the-readers-bytes", zv.BytesEq(sent, stream.data))
		zv.Assert("content-type-is-the-media-type", ct == mediaType)
	case 4:
		zv.Reach("urlencoded")
		zv.Assert("content-type-is-the-media-type", ct == mediaType)
		vals, perr := url.ParseQuery(string(sent))
		zv.Assert("body-is-a-urlencoded-form", perr == nil && len(vals) == 1 && len(vals["note"]) == len(fields))
		if perr == nil && len(vals["note"]) == len(fields) {
			for k := range fields {
				zv.Assert("form-value-round-trips", zv.StrEq(vals["note"][k], fields[k]))
			}
		}
	case 5, 6:
		zv.Reach("multipart")
		mt, params, perr := mime.ParseMediaType(ct)
		zv.Assert("content-type-announces-multipart-with-the-boundary", perr == nil && mt == "multipart/form-data" && params["boundary"] != "")
		if perr != nil {
			return
		}
		parts, ok := c11Parse(sent, params["boundary"])
		zv.Assert("body-is-a-wellformed-multipart-document", ok)
		zv.Assert("every-field-and-file-exactly-once", len(parts) == len(fields)+len(files))
		if !ok || len(parts) != len(fields)+len(files) {
			return
		}
		var gotFields, gotFiles []c11Part
		for _, p := range parts {
			if p.form == "note" {
				gotFields = append(gotFields, p)
			} else {
				gotFiles = append(gotFiles, p)
			}
		}
		zv.Assert("fields-under-their-name", len(gotFields) == len(fields))
		zv.Assert("files-under-their-name", len(gotFiles) == len(files))
		if len(gotFields) != len(fields) || len(gotFiles) != len(files) {
			return
		}
		for k := range fields {
			zv.Assert("field-value-intact", zv.BytesEq(gotFields[k].content, []byte(fields[k])))
		}
		for k, f := range files {
			p := gotFiles[k]
			zv.Assert("file-field-name", p.form == "upload")
			zv.Assert("file-content-complete", zv.BytesEq(p.content, f.data))
			zv.Assert("file-base-name", zv.StrEq(p.file, filepath.Base(f.name)))
			if f.declared != "" {
				zv.Reach("declared-type")
				zv.Assert("part-type-is-the-declared-type", p.ctype == f.declared)
			} else {
				zv.Reach("sniffed-type")
				n := len(f.data)
				if n > 512 {
					n = 512
				}
				zv.Assert("part-type-is-sniffed-from-the-content", p.ctype == http.DetectContentType(f.data[:n]))
			}
			zv.Assert("file-closed", f.closed >= 1)
		}
	}
}
