//go:build verif

package client

// C12 — client calls terminate, release what they hold, and surface faults.

import (
	"context"
	"errors"
	"io"
	"net/http"
	"time"

	"github.com/go-openapi/runtime"
	"github.com/go-openapi/strfmt"

	zv "github.com/go-openapi/runtime/internal/zzverif"
)

var (
	errC12Src       = errors.New("c12: upload source fails")
	errC12Transport = errors.New("c12: transport fails")
	errC12Body      = errors.New("c12: response body fails")
	errC12Writer    = errors.New("c12: parameter writer fails")
	errC12Auth      = errors.New("c12: auth writer fails")
	errC12Reader    = errors.New("c12: response reader fails")
)

// c12Src is an upload source: n bytes, optionally failing at an offset.
type c12Src struct {
	name   string
	data   []byte
	pos    int
	failAt int // -1: never
	err    error
	closed int
}

func (s *c12Src) Name() string { return s.name }
func (s *c12Src) Read(p []byte) (int, error) {
	if s.failAt >= 0 && s.pos >= s.failAt {
		if s.err != nil {
			return 0, s.err
		}
		return 0, errC12Src
	}
	if s.pos >= len(s.data) {
		return 0, io.EOF
	}
	if len(p) == 0 {
		return 0, nil
	}
	lim := len(s.data)
	if s.failAt >= 0 && s.failAt < lim {
		lim = s.failAt
	}
	n := copy(p, s.data[s.pos:lim])
	s.pos += n
	return n, nil
}
func (s *c12Src) Close() error { s.closed++; return nil }

// c12RespBody is the response body handed out by the scripted transport.
type c12RespBody struct {
	n        int // bytes available
	pos      int
	failAt   int  // -1: ends with EOF; else the read at this offset fails (reset/truncation)
	eofEarly bool // deliver EOF together with the last byte
	closed   int
	sawEnd   bool // EOF or error was returned
	readsAfterClose int
}

func (b *c12RespBody) Read(p []byte) (int, error) {
	if b.closed > 0 {
		b.readsAfterClose++
		return 0, errors.New("c12: read after close")
	}
	if b.failAt >= 0 && b.pos >= b.failAt {
		b.sawEnd = true
		return 0, errC12Body
	}
	if b.pos >= b.n {
		b.sawEnd = true
		return 0, io.EOF
	}
	if len(p) == 0 {
		return 0, nil
	}
	p[0] = 'r'
	b.pos++
	if b.eofEarly && b.pos >= b.n && b.failAt < 0 {
		b.sawEnd = true
		return 1, io.EOF
	}
	return 1, nil
}
func (b *c12RespBody) Close() error { b.closed++; return nil }

// c12RT: the scripted transport. A real transport closes the request body in
// every case and reports a failing request body as the error of the exchange.
type c12RT struct {
	mode     int // 0 fails before reading the request body, 1 reads it then fails, 2 answers
	calls    int
	sent     []byte
	sendErr  error
	body     *c12RespBody
	hadDL    bool
	remain   time.Duration
	ctx      context.Context
	bodySeen io.ReadCloser
}

func (t *c12RT) RoundTrip(req *http.Request) (*http.Response, error) {
	t.calls++
	t.ctx = req.Context()
	if dl, ok := t.ctx.Deadline(); ok {
		t.hadDL = true
		t.remain = time.Until(dl)
	}
	t.bodySeen = req.Body
	if t.mode == 0 {
		if req.Body != nil {
			_ = req.Body.Close()
		}
		return nil, errC12Transport
	}
	if req.Body != nil {
		t.sent, t.sendErr = io.ReadAll(req.Body)
		_ = req.Body.Close()
		if t.sendErr != nil {
			return nil, t.sendErr
		}
	}
	if t.mode == 1 {
		return nil, errC12Transport
	}
	return &http.Response{StatusCode: 200, Status: "200 OK", Header: http.Header{"Content-Type": {"application/json"}}, Body: t.body, Request: req}, nil
}

type c12Ctx struct{}

// c12Offset draws a fault offset as a symbolic integer in [-1, n]: -1 = the
// stream never fails; otherwise the read at that offset fails (n = instead of
// EOF). Which reads succeed is then decided by the solver on every comparison
// the stream makes, not by enumerating offsets.
func c12Offset(name string, n int) int {
	v := int(zv.Int32(name))
	zv.Assume(v >= -1 && v <= n)
	return v
}

// VerifC12Submit: every fault placement around one exchange.
func VerifC12Submit() {
	zv.Stub("(*net/http.Client).Do", c13Do)
	zv.Stub("mime/multipart.randomBoundary", func() string { return "c12boundaryc12boundaryc12boundaryc12boundaryc12boundaryc12bound" })

	// ---- what the caller hands over ----
	payload := zv.Choose("payload", 4) // 0 none, 1 multipart: field + file, 2 multipart: file only, 3 streamed reader
	var file, stream *c12Src
	switch payload {
	case 1, 2:
		n := zv.Choose("file-size", zv.Param("filesize", 2)+1)
		file = &c12Src{name: "dir/f.bin", data: make([]byte, n), failAt: c12Offset("file-fails-at", n)}
		for i := range file.data {
			file.data[i] = 'a' + byte(i)
		}
	case 3:
		n := zv.Choose("stream-size", zv.Param("filesize", 2)+1)
		stream = &c12Src{name: "s", data: make([]byte, n), failAt: c12Offset("stream-fails-at", n)}
	}
	// a failing source may fail with an error of its own or with one of io's
	// sentinel errors (a truncated download reports io.ErrUnexpectedEOF)
	if src := file; src != nil || stream != nil {
		if src == nil {
			src = stream
		}
		if zv.Choose("source-error", 2) == 1 {
			src.err = io.ErrUnexpectedEOF
		}
	}
	writerFails := zv.Choose("writer-fails", 2) == 1
	// 0 no auth writer, 1 succeeds, 2 succeeds after looking at the body, 3 fails, 4 fails after looking at the body
	authMode := zv.Choose("auth", 5)
	bad := zv.Choose("bad-request", 3) // 0 fine, 1 unparsable base path, 2 invalid method
	timeoutSet := zv.Choose("timeout", 2) == 1
	reuse := zv.Choose("connection-reuse", 2) == 1

	basePath := "/api"
	if bad == 1 {
		basePath = "/%zz"
	}
	method := "POST"
	if bad == 2 {
		method = "PO ST"
	}
	tr := &c12RT{}
	rt := New("h.example", basePath, []string{"http"})
	rt.Transport = tr
	if reuse {
		rt.EnableConnectionReuse()
	}
	parent := context.WithValue(context.Background(), c12Ctx{}, "parent")
	// the caller's context may carry a (later) deadline of its own: the effective
	// deadline is the shorter of the two
	parentDL := zv.Choose("callers-context-has-a-deadline", 2) == 1
	if parentDL {
		var cancelParent context.CancelFunc
		parent, cancelParent = context.WithTimeout(parent, time.Hour)
		defer cancelParent()
	}
	rt.Context = parent

	handedOver := false
	params := runtime.ClientRequestWriterFunc(func(req runtime.ClientRequest, _ strfmt.Registry) error {
		switch payload {
		case 1:
			_ = req.SetFormParam("field", "v")
			_ = req.SetFileParam("upload", file)
			handedOver = true
		case 2:
			_ = req.SetFileParam("upload", file)
			handedOver = true
		case 3:
			_ = req.SetBodyParam(io.ReadCloser(stream))
		}
		if timeoutSet {
			_ = req.SetTimeout(30 * time.Second)
		} else {
			_ = req.SetTimeout(0)
		}
		if writerFails {
			return errC12Writer
		}
		return nil
	})
	var auth runtime.ClientAuthInfoWriter
	if authMode != 0 {
		auth = runtime.ClientAuthInfoWriterFunc(func(req runtime.ClientRequest, _ strfmt.Registry) error {
			if authMode == 2 || authMode == 4 {
				_ = req.GetBody()
			}
			if authMode >= 3 {
				return errC12Auth
			}
			return nil
		})
	}
	readerCalls := 0
	var readerErr error
	reader := runtime.ClientResponseReaderFunc(func(r runtime.ClientResponse, c runtime.Consumer) (interface{}, error) {
		readerCalls++
		switch zv.Choose("reader-reads", 3) {
		case 0: // everything
			_, readerErr = io.ReadAll(r.Body())
		case 1: // one byte
			var one [1]byte
			_, _ = r.Body().Read(one[:])
		}
		if readerErr != nil {
			return nil, readerErr
		}
		if zv.Choose("reader-fails", 2) == 1 {
			readerErr = errC12Reader
			return nil, readerErr
		}
		return "done", nil
	})
	consumes := "application/octet-stream"
	if payload == 1 || payload == 2 {
		consumes = "multipart/form-data"
	}
	op := &runtime.ClientOperation{ID: "op", Method: method, PathPattern: "/up", Schemes: []string{"http"},
		ConsumesMediaTypes: []string{consumes}, ProducesMediaTypes: []string{"application/json"},
		Params: params, AuthInfo: auth, Reader: reader}

	// the transport's behaviour is chosen when (if) the request reaches it
	sendable := !writerFails && authMode < 3 && bad == 0
	if sendable {
		tr.mode = zv.Choose("transport", 3)
		if tr.mode == 2 {
			n := zv.Choose("response-size", zv.Param("respsize", 2)+1)
			tr.body = &c12RespBody{n: n, failAt: c12Offset("response-fails-at", n), eofEarly: zv.Bool("eof-with-last-byte")}
		}
	}

	res, err := rt.Submit(op)
	left := zv.Goroutines()

	// ---- oracle ----
	srcFails := (file != nil && file.failAt >= 0) || (stream != nil && stream.failAt >= 0)
	zv.Assert("no-goroutine-left-behind", left == 0)
	if handedOver {
		zv.Assert("every-file-handed-over-is-closed", file.closed >= 1)
	}
	if !sendable {
		zv.Reach("fails-before-sending")
		zv.Assert("error-before-sending-is-returned", err != nil && res == nil)
		zv.Assert("nothing-sent-after-a-construction-error", tr.calls == 0)
		return
	}
	if srcFails && (authMode == 2 || authMode == 4) {
		// the auth writer asked for the body and the source failed while it was copied
		zv.Reach("upload-source-fails-under-auth")
		zv.Assert("failing-upload-source-is-never-a-success", err != nil && res == nil)
		return
	}
	zv.Assert("request-reaches-the-transport-once", tr.calls == 1)
	// the request context: derived from the caller's, bounded by the timeout, cancelled on return
	zv.Assert("request-context-derives-from-the-callers", tr.ctx != nil && tr.ctx.Value(c12Ctx{}) == "parent")
	switch {
	case timeoutSet:
		zv.Assert("timeout-bounds-the-exchange", tr.hadDL && tr.remain <= 30*time.Second && tr.remain > 20*time.Second)
	case parentDL:
		zv.Assert("callers-deadline-kept", tr.hadDL && tr.remain <= time.Hour && tr.remain > 50*time.Minute)
	default:
		zv.Assert("no-deadline-without-timeout", !tr.hadDL)
	}
	zv.Assert("request-context-cancelled-on-return", tr.ctx.Err() != nil)
	if srcFails && tr.mode != 0 {
		zv.Reach("upload-source-fails")
		zv.Assert("failing-upload-source-is-never-a-success", err != nil)
	}
	if tr.mode != 2 {
		zv.Reach("transport-fails")
		zv.Assert("transport-error-is-returned", err != nil && res == nil)
		return
	}
	if srcFails {
		return
	}
	zv.Reach("answered")
	b := tr.body
	zv.Assert("response-body-closed-exactly-once", b.closed == 1)
	zv.Assert("no-read-after-close", b.readsAfterClose == 0)
	zv.Assert("reader-called-once", readerCalls == 1)
	if readerErr != nil {
		zv.Reach("incomplete-response")
		zv.Assert("incomplete-response-is-an-error", err != nil)
	} else {
		zv.Assert("complete-response-is-returned", err == nil && res == "done")
	}
	if reuse {
		zv.Reach("reuse")
		zv.Assert("body-drained-before-close-when-reuse-is-on", b.sawEnd)
	}
}

// VerifC12Drain: any sequence of reads (any buffer sizes) followed by Close on
// the body wrapper installed by connection reuse.
func VerifC12Drain() {
	n := zv.Choose("size", zv.Param("respsize", 2)+1)
	under := &c12RespBody{n: n, failAt: c12Offset("fails-at", n), eofEarly: zv.Bool("eof-with-last-byte")}
	tr := KeepAliveTransport(&c12RT{mode: 2, body: under})
	resp, err := tr.RoundTrip(&http.Request{Method: "GET", Header: http.Header{}})
	if err != nil || resp == nil {
		zv.Assert("wrapped-transport-answers", false)
		return
	}
	sawEnd := false
	got := 0
	steps := zv.Choose("reads", zv.Param("reads", 3)+1)
	for k := 0; k < steps; k++ {
		buf := make([]byte, zv.Choose("buffer-size", 3))
		m, rerr := resp.Body.Read(buf)
		got += m
		if rerr != nil {
			sawEnd = true
		}
		zv.Assert("reads-pass-through", m <= len(buf))
	}
	zv.Assert("bytes-read-are-the-underlying-bytes", got == under.pos)
	cerr := resp.Body.Close()
	zv.Reach("closed")
	zv.Assert("close-succeeds", cerr == nil)
	zv.Assert("underlying-body-closed-exactly-once", under.closed == 1)
	zv.Assert("no-read-after-close", under.readsAfterClose == 0)
	if !sawEnd {
		zv.Reach("drained-on-close")
		zv.Assert("drained-before-close-unless-the-end-was-seen", under.sawEnd)
	}
}
