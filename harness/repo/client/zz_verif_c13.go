//go:build verif

package client

// C13 — responses reach the reader with the right consumer; per-operation
// client/context win; concurrent calls on one transport do not interfere.

import (
	"context"
	"io"
	"net/http"
	"strings"

	"github.com/go-openapi/runtime"
	"github.com/go-openapi/strfmt"

	zv "github.com/go-openapi/runtime/internal/zzverif"
)

// c13RT is the scripted transport: it records the request and answers with the
// prepared response.
type c13RT struct {
	id    string
	resp  *http.Response
	calls int
	req   *http.Request
	who   interface{} // value of c13Key in the request's context
}

type c13KeyT struct{}

var c13Key = c13KeyT{}

func (t *c13RT) RoundTrip(req *http.Request) (*http.Response, error) {
	t.calls++
	t.req = req
	t.who = req.Context().Value(c13Key)
	if req.Body != nil {
		_ = req.Body.Close()
	}
	resp := *t.resp
	resp.Request = req
	return &resp, nil
}

// c13QuietRT keeps no state of its own (what it observes goes to a package
// variable that is not reachable from the Runtime), so that the shared-write
// monitor sees the Runtime's writes only.
type c13QuietRT struct{ resp *http.Response }

var c13Seen *http.Request

func (t c13QuietRT) RoundTrip(req *http.Request) (*http.Response, error) {
	c13Seen = req
	resp := *t.resp
	resp.Body = &c13BodyT{data: []byte("ok")}
	resp.Request = req
	return &resp, nil
}

// c13Do models (*http.Client).Do for the engine: the request is handed to the
// client's transport (net/http's connection handling is environment).
func c13Do(c *http.Client, req *http.Request) (*http.Response, error) {
	tr := c.Transport
	if tr == nil {
		tr = http.DefaultTransport
	}
	return tr.RoundTrip(req)
}

type c13BodyT struct {
	data   []byte
	pos    int
	closed int
}

func (b *c13BodyT) Read(p []byte) (int, error) {
	if b.pos >= len(b.data) {
		return 0, io.EOF
	}
	n := copy(p, b.data[b.pos:])
	b.pos += n
	return n, nil
}
func (b *c13BodyT) Close() error { b.closed++; return nil }

type c13Cons struct{ id string }

func (c *c13Cons) Consume(io.Reader, interface{}) error { return nil }

var c13Spellings = []string{"application/json", "Application/JSON", "text/plain", "TEXT/plain", "application/octet-stream", "image/png", "text/csv"}

func c13Lower(s string) string {
	b := []byte(s)
	for i, c := range b {
		if c >= 'A' && c <= 'Z' {
			b[i] = c + 32
		}
	}
	return string(b)
}

func c13IsTokenByte(c byte) bool {
	return c > 0x20 && c < 0x7f && !strings.ContainsRune(`()<>@,;:\"/[]?=`, rune(c))
}

// VerifC13Consumer: consumer selection and the response adapter.
func VerifC13Consumer() {
	zv.Stub("(*net/http.Client).Do", c13Do)
	// registry: which of the media types are registered, and the catch-all
	regs := [][]string{
		{"application/json", "text/plain"},
		{"application/json", "text/plain", "*/*"},
		{"application/octet-stream"},
		{"*/*"},
		{},
	}
	// (arbitrary header bytes are explored against the first two registries and
	// the standard default media type only: the dimensions are independent)
	ctForm := zv.Choose("content-type-form", 4)
	nregs := len(regs)
	if ctForm >= 2 {
		nregs = zv.Param("regs-for-raw", 2)
	}
	reg := regs[zv.Choose("registry", nregs)]
	rt := New("api.example.com", "/", []string{"http"})
	rt.Consumers = map[string]runtime.Consumer{}
	cons := map[string]*c13Cons{}
	for _, mt := range reg {
		c := &c13Cons{id: mt}
		cons[mt] = c
		rt.Consumers[mt] = c
	}
	defIsText := ctForm < 2 && zv.Choose("default-media-type", 2) == 1
	if defIsText {
		rt.DefaultMediaType = "text/plain"
	}
	rt.Producers["text/plain"] = runtime.TextProducer()

	// response (the header set and body vary only under the two plain
	// Content-Type forms: the dimensions are independent of one another)
	body := &c13BodyT{}
	if ctForm < 2 {
		body.data = []byte(zv.String("body", zv.Param("bodylen", 2)))
	}
	status := int(zv.Int32("status"))
	zv.Assume(status >= 100 && status <= 599)
	resp := &http.Response{StatusCode: status, Status: "status-text", Header: http.Header{}, Body: body, ProtoMajor: 1, ProtoMinor: 1}
	ct := ""
	wellFormed := true
	base := ""
	switch ctForm {
	case 0: // absent
	case 1: // a spelling, alone or followed by a well-formed parameter
		base = c13Spellings[zv.Choose("spelling", len(c13Spellings))]
		ct = base
		if zv.Choose("with-parameter", 2) == 1 {
			v := zv.String("pvalue", zv.Param("pvaluelen", 2))
			zv.Assume(len(v) > 0)
			for i := 0; i < len(v); i++ {
				zv.Assume(c13IsTokenByte(v[i]))
			}
			ct = base + "; charset=" + v
		}
	case 2: // a spelling followed by arbitrary bytes
		base = c13Spellings[zv.Choose("spelling", len(c13Spellings))]
		ct = base + zv.String("suffix", zv.Param("suffixlen", 2))
		wellFormed = false
	default: // arbitrary bytes
		ct = zv.String("raw", zv.Param("rawlen", 3))
		zv.Assume(len(ct) > 0)
		wellFormed = false
	}
	if ctForm != 0 {
		resp.Header["Content-Type"] = []string{ct}
	}
	nh := 1
	if ctForm < 2 {
		nh = zv.Choose("x-values", 3)
	}
	var xvals []string
	for k := 0; k < nh; k++ {
		xvals = append(xvals, zv.String("x", 1))
	}
	if nh > 0 {
		resp.Header["X-Trace"] = xvals
	}
	tr := &c13RT{id: "rt", resp: resp}
	rt.Transport = tr

	var gotCons runtime.Consumer
	var gotResp runtime.ClientResponse
	readerCalls := 0
	reader := runtime.ClientResponseReaderFunc(func(r runtime.ClientResponse, c runtime.Consumer) (interface{}, error) {
		readerCalls++
		gotCons, gotResp = c, r
		return "result", nil
	})
	op := &runtime.ClientOperation{ID: "op", Method: "GET", PathPattern: "/things", Schemes: []string{"http"},
		ConsumesMediaTypes: []string{"text/plain"}, ProducesMediaTypes: []string{"application/json"},
		Params: runtime.ClientRequestWriterFunc(func(runtime.ClientRequest, strfmt.Registry) error { return nil }),
		Reader: reader}
	res, err := rt.Submit(op)

	zv.Assert("transport-consulted-once", tr.calls == 1)
	// "never a different consumer": whichever consumer reaches the reader is the one
	// registered for the media type, else the catch-all.
	if readerCalls > 0 {
		zv.Reach("reader-called")
		zv.Assert("reader-called-once", readerCalls == 1)
		zv.Assert("reader-result-returned", err == nil && res == "result")
		c, _ := gotCons.(*c13Cons)
		zv.Assert("a-registered-consumer", c != nil)
		if c != nil && wellFormed {
			want := "application/json"
			if defIsText {
				want = "text/plain"
			}
			if ctForm == 1 {
				want = c13Lower(base)
			}
			if _, ok := cons[want]; ok {
				zv.Reach("own-consumer")
				zv.Assert("consumer-registered-for-the-media-type", c.id == want)
			} else {
				zv.Reach("catch-all")
				zv.Assert("catch-all-consumer-otherwise", c.id == "*/*")
			}
		}
		if c != nil && !wellFormed {
			// whatever the header bytes: the media type is the text before the first ';'
			mt := ct
			if k := strings.IndexByte(ct, ';'); k >= 0 {
				mt = ct[:k]
			}
			mt = c13Lower(strings.TrimSpace(mt))
			zv.Assert("never-a-different-consumer", zv.Or(c.id == "*/*", zv.StrEq(c.id, mt)))
			if c.id == "*/*" && mt != "*/*" { // (a response typed "*/*" itself is served by the consumer registered under that very name)
				_, has := cons[mt]
				zv.Assert("catch-all-only-when-the-type-is-unregistered", !has)
			}
		}
		// the adapter shows the response unchanged
		zv.Assert("status-code-unchanged", gotResp.Code() == status)
		zv.Assert("status-text-unchanged", gotResp.Message() == "status-text")
		if ctForm != 0 {
			zv.Assert("content-type-header-unchanged", zv.StrEq(gotResp.GetHeader("Content-Type"), ct))
		}
		hv := gotResp.GetHeaders("X-Trace")
		zv.Assert("header-values-unchanged", len(hv) == nh)
		for k := 0; k < nh && k < len(hv); k++ {
			zv.Assert("header-value-unchanged", zv.StrEq(hv[k], xvals[k]))
		}
		if nh > 0 {
			zv.Assert("first-header-value", zv.StrEq(gotResp.GetHeader("x-trace"), xvals[0]))
		}
		zv.Assert("body-is-the-responses-body", gotResp.Body() == io.ReadCloser(body))
		zv.Assert("body-not-read-by-the-transport", body.pos == 0)
	} else {
		zv.Reach("no-reader")
		zv.Assert("call-fails-when-no-consumer-applies", err != nil && res == nil)
		if wellFormed {
			want := "application/json"
			if defIsText {
				want = "text/plain"
			}
			if ctForm == 1 {
				want = c13Lower(base)
			}
			_, has := cons[want]
			_, hasAny := cons["*/*"]
			zv.Assert("fails-only-without-own-and-catch-all-consumer", !has && !hasAny)
			if ctForm == 1 && ct == base && err != nil {
				zv.Reach("error-names-type")
				zv.Assert("error-names-the-content-type", strings.Contains(err.Error(), ct))
			}
		}
	}
	zv.Assert("response-body-closed-once", body.closed == 1)
}

// VerifC13Precedence: per-operation client and context take precedence over the
// transport-wide ones.
func VerifC13Precedence() {
	zv.Stub("(*net/http.Client).Do", c13Do)
	mk := func(id string) *c13RT {
		return &c13RT{id: id, resp: &http.Response{StatusCode: 200, Status: "200 OK", Header: http.Header{"Content-Type": {"application/json"}}, Body: &c13BodyT{}}}
	}
	trRuntime, trClient, trOp := mk("runtime-transport"), mk("runtime-client"), mk("operation-client")
	// an operation client may have no transport of its own (only a jar, a redirect
	// policy, a timeout): its requests travel over http.DefaultTransport
	trDefault := mk("default-transport")
	oldDefault := http.DefaultTransport
	http.DefaultTransport = trDefault
	defer func() { http.DefaultTransport = oldDefault }()
	var rt *Runtime
	withRtClient := zv.Choose("runtime-client", 2) == 1
	if withRtClient {
		rt = NewWithClient("h", "/", []string{"http"}, &http.Client{Transport: trClient})
	} else {
		rt = New("h", "/", []string{"http"})
	}
	rt.Transport = trRuntime
	rtCtx := zv.Choose("runtime-context", 3) // 0 nil, 1 background-derived with a value, 2 default
	switch rtCtx {
	case 0:
		rt.Context = nil
	case 1:
		rt.Context = context.WithValue(context.Background(), c13Key, "runtime")
	}
	// a history of calls on the one Runtime: each call is routed by its own
	// operation, whatever earlier calls (incl. the client-creating first one) did
	steps := zv.Param("history", 2)
	for k := 0; k < steps; k++ {
		op := &runtime.ClientOperation{ID: "op", Method: "GET", PathPattern: "/x", Schemes: []string{"http"},
			Params: runtime.ClientRequestWriterFunc(func(req runtime.ClientRequest, _ strfmt.Registry) error {
				if zv.Choose("timeout", 2) == 1 {
					return req.SetTimeout(0)
				}
				return nil
			}),
			Reader: runtime.ClientResponseReaderFunc(func(r runtime.ClientResponse, c runtime.Consumer) (interface{}, error) { return nil, nil })}
		opClientKind := zv.Choose("operation-client", 3) // none / with its own transport / without transport
		withOpClient := opClientKind != 0
		switch opClientKind {
		case 1:
			op.Client = &http.Client{Transport: trOp}
		case 2:
			op.Client = &http.Client{}
		}
		withOpCtx := zv.Choose("operation-context", 2) == 1
		if withOpCtx {
			op.Context = context.WithValue(context.Background(), c13Key, "operation")
		}
		before := [3]int{trRuntime.calls, trClient.calls, trOp.calls + trDefault.calls}
		_, err := rt.Submit(op)
		zv.Assert("call-succeeds", err == nil)
		var used *c13RT
		var usedBefore int
		switch {
		case opClientKind == 2:
			used, usedBefore = trDefault, before[2]-trOp.calls
		case withOpClient:
			used, usedBefore = trOp, before[2]-trDefault.calls
		case withRtClient:
			used, usedBefore = trClient, before[1]
		default:
			used, usedBefore = trRuntime, before[0]
		}
		zv.Reach("submitted")
		zv.Assert("exactly-one-request-sent", trRuntime.calls+trClient.calls+trOp.calls+trDefault.calls == before[0]+before[1]+before[2]+1)
		zv.Assert("per-operation-client-wins-then-runtime-client", used.calls == usedBefore+1)
		switch {
		case withOpCtx:
			zv.Assert("per-operation-context-wins", used.who == "operation")
		case rtCtx == 1:
			zv.Assert("runtime-context-otherwise", used.who == "runtime")
		default:
			zv.Assert("background-context-otherwise", used.who == nil)
		}
	}
}

// VerifC13Shared: one Submit from a transport that other goroutines may be using
// (client already created, or this being the first, client-creating, call) writes
// no shared state outside the Once — the inductive step of race freedom and of
// "each caller receives the response to its own request".
func VerifC13Shared() {
	zv.Stub("(*net/http.Client).Do", c13Do)
	tr := c13QuietRT{resp: &http.Response{StatusCode: 200, Status: "200 OK", Header: http.Header{"Content-Type": {"application/json"}}}}
	// 0: client created by an earlier call; 1: created by this very call;
	// 2: a caller-supplied client without a transport of its own (requests then
	// travel over http.DefaultTransport, replaced by the scripted one here)
	form := zv.Choose("client", 3)
	var rt *Runtime
	if form == 2 {
		old := http.DefaultTransport
		http.DefaultTransport = tr
		defer func() { http.DefaultTransport = old }()
		rt = NewWithClient("h", "/", []string{"http"}, &http.Client{})
	} else {
		rt = New("h", "/", []string{"http"})
	}
	rt.Transport = tr
	c13Seen = nil
	mkOp := func(path string, got *runtime.ClientResponse) *runtime.ClientOperation {
		return &runtime.ClientOperation{ID: "op", Method: "GET", PathPattern: path, Schemes: []string{"http"},
			Params: runtime.ClientRequestWriterFunc(func(req runtime.ClientRequest, _ strfmt.Registry) error {
				return req.SetQueryParam("q", path)
			}),
			Reader: runtime.ClientResponseReaderFunc(func(r runtime.ClientResponse, c runtime.Consumer) (interface{}, error) {
				*got = r
				return path, nil
			})}
	}
	var r0, r1 runtime.ClientResponse
	if form == 0 {
		if _, err := rt.Submit(mkOp("/warm", &r0)); err != nil {
			zv.Assert("warm-up-succeeds", false)
		}
	}
	zv.BeginShared(rt)
	res, err := rt.Submit(mkOp("/mine", &r1))
	zv.EndShared()
	zv.Reach("submitted")
	zv.Assert("call-succeeds", err == nil && res == "/mine")
	zv.Assert("request-sent-is-this-callers", c13Seen != nil && c13Seen.URL.Path == "/mine" && c13Seen.URL.RawQuery == "q=%2Fmine")
}
