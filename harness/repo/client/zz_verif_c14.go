//go:build verif

package client

// C14 — credentials written by the client are exactly those the server checks.

import (
	"context"
	"io"
	"net/http"
	"strings"

	"github.com/go-openapi/runtime"
	"github.com/go-openapi/runtime/security"
	"github.com/go-openapi/strfmt"

	zv "github.com/go-openapi/runtime/internal/zzverif"
)

func c14Build(method string, auth runtime.ClientAuthInfoWriter, w runtime.ClientRequestWriter) (*http.Request, error) {
	if w == nil {
		w = runtime.ClientRequestWriterFunc(func(runtime.ClientRequest, strfmt.Registry) error { return nil })
	}
	r := newRequest(method, "/op", w)
	return r.buildHTTP("application/json", "/", nil, nil, auth)
}

func c14HeaderSafe(s string) {
	for k := 0; k < len(s); k++ {
		zv.Assume(zv.And(s[k] > 0x20, s[k] < 0x7f))
	}
}

// VerifC14Basic: user/password round-trip through the basic writer and authenticators.
func VerifC14Basic() {
	n := zv.Param("credlen", 2)
	user := zv.String("user", n)
	for k := 0; k < len(user); k++ {
		zv.Assume(user[k] != ':')
	}
	pass := zv.String("pass", n)
	present := zv.Choose("present", 2) == 1
	var auth runtime.ClientAuthInfoWriter
	if present {
		auth = BasicAuth(user, pass)
	}
	req, err := c14Build("GET", auth, nil)
	zv.Assert("request-builds", err == nil)
	if err != nil {
		return
	}
	var gotU, gotP string
	calls := 0
	princ := &struct{ n int }{7}
	var a runtime.Authenticator
	switch zv.Choose("variant", 3) {
	case 0:
		a = security.BasicAuth(func(u, p string) (interface{}, error) { calls++; gotU, gotP = u, p; return princ, nil })
	case 1:
		a = security.BasicAuthRealm("realm", func(u, p string) (interface{}, error) { calls++; gotU, gotP = u, p; return princ, nil })
	case 2:
		a = security.BasicAuthCtx(func(ctx context.Context, u, p string) (context.Context, interface{}, error) {
			calls++
			gotU, gotP = u, p
			return ctx, princ, nil
		})
	}
	applies, p, aerr := a.Authenticate(req)
	if !present {
		zv.Reach("absent")
		zv.Assert("not-applicable-without-credential", !applies && p == nil && aerr == nil && calls == 0)
		zv.Assert("failure-marker-set", security.FailedBasicAuth(req) != "")
		return
	}
	zv.Reach("present")
	zv.Assert("applies-with-credential", applies && aerr == nil)
	zv.Assert("callback-called-once", calls == 1)
	zv.Assert("user-recovered-exactly", zv.StrEq(gotU, user))
	zv.Assert("password-recovered-exactly", zv.StrEq(gotP, pass))
	zv.Assert("principal-is-the-callbacks", p == interface{}(princ))
}

// VerifC14APIKey: API keys in header or query.
func VerifC14APIKey() {
	type loc struct{ name, in string }
	l := []loc{{"X-API-Key", "header"}, {"x-token", "header"}, {"api_key", "query"}, {"k", "Query"}}[zv.Choose("loc", 4)]
	val := zv.String("value", zv.Param("credlen", 2))
	inl := strings.ToLower(l.in)
	if inl == "header" {
		c14HeaderSafe(val)
	}
	present := zv.Choose("present", 2) == 1
	var auth runtime.ClientAuthInfoWriter
	if present {
		auth = APIKeyAuth(l.name, inl, val)
	}
	req, err := c14Build("GET", auth, nil)
	zv.Assert("request-builds", err == nil)
	if err != nil {
		return
	}
	var got string
	calls := 0
	princ := &struct{ n int }{9}
	var a runtime.Authenticator
	if zv.Choose("variant", 2) == 0 {
		a = security.APIKeyAuth(l.name, l.in, func(t string) (interface{}, error) { calls++; got = t; return princ, nil })
	} else {
		a = security.APIKeyAuthCtx(l.name, l.in, func(ctx context.Context, t string) (context.Context, interface{}, error) {
			calls++
			got = t
			return ctx, princ, nil
		})
	}
	applies, p, aerr := a.Authenticate(req)
	if !present || len(val) == 0 {
		zv.Reach("absent")
		zv.Assert("not-applicable-without-key", !applies && p == nil && calls == 0)
		return
	}
	zv.Reach("present")
	zv.Assert("applies-with-key", applies && aerr == nil && calls == 1)
	zv.Assert("key-recovered-exactly", zv.StrEq(got, val))
	zv.Assert("principal-is-the-callbacks", p == interface{}(princ))
}

type c14Body struct {
	s   string
	pos int
}

func (b *c14Body) Read(p []byte) (int, error) {
	if b.pos >= len(b.s) {
		return 0, io.EOF
	}
	n := copy(p, b.s[b.pos:])
	b.pos += n
	return n, nil
}
func (b *c14Body) Close() error { return nil }

// VerifC14Bearer: bearer token placements and their precedence.
func VerifC14Bearer() {
	tok := func(name string) string {
		switch zv.Choose(name, 3) {
		case 1:
			return name + "-token"
		case 2:
			t := zv.StringN(name+".sym", 1)
			c14HeaderSafe(t)
			zv.Assume(zv.And(zv.And(t[0] != '&', t[0] != '='), zv.And(zv.And(t[0] != '%', t[0] != '+'), t[0] != ';')))
			return "t" + t
		}
		return ""
	}
	hdrTok, qTok, formTok := tok("hdr"), tok("query"), tok("form")
	otherScheme := zv.Choose("otherScheme", 2) == 1
	var auth runtime.ClientAuthInfoWriter
	if hdrTok != "" {
		auth = BearerToken(hdrTok)
	}
	req, err := c14Build("POST", auth, runtime.ClientRequestWriterFunc(func(r runtime.ClientRequest, _ strfmt.Registry) error {
		if qTok != "" {
			return r.SetQueryParam("access_token", qTok)
		}
		return nil
	}))
	zv.Assert("request-builds", err == nil)
	if err != nil {
		return
	}
	if hdrTok == "" && otherScheme {
		req.Header.Set("Authorization", "Basic dTpw")
	}
	formCT := zv.Choose("formCT", 2) == 1
	if formTok != "" {
		req.Body = &c14Body{s: "access_token=" + formTok}
		req.ContentLength = int64(len("access_token=" + formTok))
	}
	if formCT {
		req.Header.Set("Content-Type", "application/x-www-form-urlencoded")
	} else {
		req.Header.Set("Content-Type", "application/json")
	}
	var got string
	var gotScopes []string
	calls := 0
	princ := &struct{ n int }{11}
	var a runtime.Authenticator
	if zv.Choose("variant", 2) == 0 {
		a = security.BearerAuth("oauth", func(t string, sc []string) (interface{}, error) { calls++; got, gotScopes = t, sc; return princ, nil })
	} else {
		a = security.BearerAuthCtx("oauth", func(ctx context.Context, t string, sc []string) (context.Context, interface{}, error) {
			calls++
			got, gotScopes = t, sc
			return ctx, princ, nil
		})
	}
	scopes := []string{"read", "write"}
	applies, p, aerr := a.Authenticate(&security.ScopedAuthRequest{Request: req, RequiredScopes: scopes})
	want := hdrTok
	if want == "" {
		want = qTok
	}
	if want == "" && formCT {
		want = formTok
	}
	if want == "" {
		zv.Reach("absent")
		zv.Assert("not-applicable-without-token", !applies && p == nil && calls == 0)
		return
	}
	zv.Reach("present")
	zv.Assert("applies-with-token", applies && aerr == nil && calls == 1)
	zv.Assert("token-by-precedence-header-query-form", zv.StrEq(got, want))
	zv.Assert("required-scopes-handed-over", len(gotScopes) == 2 && gotScopes[0] == "read" && gotScopes[1] == "write")
	zv.Assert("principal-is-the-callbacks", p == interface{}(princ))
	zv.Assert("scheme-name-recorded", security.OAuth2SchemeName(req) == "oauth")
}

// VerifC14Default: the transport-wide default credential is applied only when
// the operation has none of its own and no Authorization header is already set.
func VerifC14Default() {
	// the operation's own credential: none, a bearer token, or an API key that
	// does not travel in the Authorization header (query / custom header)
	opKind := zv.Choose("opAuth", 4)
	opAuth := opKind == 1
	hdrSet := zv.Choose("hdrSet", 2) == 1
	defSet := zv.Choose("default", 2) == 1
	rt := &Runtime{Host: "h", BasePath: "/", DefaultMediaType: "application/json",
		Producers: map[string]runtime.Producer{"application/json": runtime.JSONProducer()}}
	if defSet {
		rt.DefaultAuthentication = BearerToken("default-token")
	}
	op := &runtime.ClientOperation{ID: "op", Method: "GET", PathPattern: "/op", Schemes: []string{"http"},
		Params: runtime.ClientRequestWriterFunc(func(r runtime.ClientRequest, _ strfmt.Registry) error {
			if hdrSet {
				return r.SetHeaderParam("Authorization", "Custom abc")
			}
			return nil
		})}
	switch opKind {
	case 1:
		op.AuthInfo = BearerToken("op-token")
	case 2:
		op.AuthInfo = APIKeyAuth("api_key", "query", "op-key")
	case 3:
		op.AuthInfo = APIKeyAuth("X-Api-Key", "header", "op-key")
	}
	req, err := rt.CreateHttpRequest(op)
	zv.Assert("request-builds", err == nil)
	if err != nil {
		return
	}
	got := req.Header.Get("Authorization")
	want := ""
	switch {
	case opAuth:
		want = "Bearer op-token"
	case hdrSet:
		want = "Custom abc"
	case opKind >= 2:
		want = "" // the operation has a credential of its own: the default is not applied
	case defSet:
		want = "Bearer default-token"
	}
	zv.Assert("default-auth-only-when-nothing-else", got == want)
	if opKind == 2 {
		zv.Assert("operation-key-sent-in-query", req.URL.Query().Get("api_key") == "op-key")
	}
	if opKind == 3 {
		zv.Assert("operation-key-sent-in-header", req.Header.Get("X-Api-Key") == "op-key")
	}
	zv.Reach("built")
}
