//go:build verif

package client

// C18 — TLS client options never weaken verification or drop identity silently.

import (
	"crypto"
	"crypto/ecdsa"
	"crypto/elliptic"
	"crypto/rsa"
	"crypto/tls"
	"crypto/x509"
	"encoding/pem"
	"errors"
	"math/big"
	"os"

	zv "github.com/go-openapi/runtime/internal/zzverif"
)

const c18Fix = "/repo/fixtures/certs/"

type c18Env struct {
	pairFails, x509PairFails, ecMarshalFails, readFails, noPEM bool
	theCert                                           tls.Certificate
	added                                             map[*x509.CertPool][]*x509.Certificate
	appended                                          map[*x509.CertPool]int
	newPools                                          int
}

// c18Stubs replaces the crypto/file environment by scripted outcomes (engine only).
func c18Stubs(e *c18Env) {
	zv.Stub("crypto/tls.LoadX509KeyPair", func(c, k string) (tls.Certificate, error) {
		if e.pairFails {
			return tls.Certificate{}, errors.New("stub: bad key pair")
		}
		return e.theCert, nil
	})
	zv.Stub("crypto/tls.X509KeyPair", func(c, k []byte) (tls.Certificate, error) {
		if e.x509PairFails {
			return tls.Certificate{}, errors.New("stub: bad key pair")
		}
		return e.theCert, nil
	})
	zv.Stub("crypto/x509.MarshalPKCS1PrivateKey", func(k *rsa.PrivateKey) []byte { return []byte{1} })
	zv.Stub("crypto/x509.MarshalECPrivateKey", func(k *ecdsa.PrivateKey) ([]byte, error) {
		if e.ecMarshalFails {
			return nil, errors.New("stub: bad curve")
		}
		return []byte{2}, nil
	})
	zv.Stub("encoding/pem.EncodeToMemory", func(b *pem.Block) []byte { return []byte{3} })
	zv.Stub("os.ReadFile", func(name string) ([]byte, error) {
		if e.readFails {
			return nil, errors.New("stub: no such file")
		}
		return []byte{4}, nil
	})
	zv.Stub("crypto/x509.NewCertPool", func() *x509.CertPool {
		e.newPools++
		return new(x509.CertPool)
	})
	zv.Stub("(*crypto/x509.CertPool).AddCert", func(p *x509.CertPool, c *x509.Certificate) {
		e.added[p] = append(e.added[p], c)
	})
	zv.Stub("(*crypto/x509.CertPool).AppendCertsFromPEM", func(p *x509.CertPool, b []byte) bool {
		e.appended[p]++
		return !e.noPEM
	})
}

type c18Other struct{}

// VerifC18Options walks the whole option lattice.
func VerifC18Options() {
	e := &c18Env{added: map[*x509.CertPool][]*x509.Certificate{}, appended: map[*x509.CertPool]int{}}
	e.theCert = tls.Certificate{Certificate: [][]byte{{42}}}
	sym := zv.Symbolic()
	var opts TLSClientOptions

	// --- client certificate ---
	certForm := zv.Choose("cert", 3) // none / file / loaded
	keyForm := 0
	expectCertErr := false
	switch certForm {
	case 1:
		bad := zv.Choose("pairFails", 2) == 1
		e.pairFails = bad
		expectCertErr = bad
		opts.Certificate, opts.Key = c18Fix+"myclient.crt", c18Fix+"myclient.key"
		if bad {
			opts.Key = c18Fix+"myCA.key" // mismatching key (native realisation)
		}
	case 2:
		keyForm = zv.Choose("loadedKey", 4) // nil / rsa / ecdsa / unsupported
		if keyForm == 2 {
			e.ecMarshalFails = zv.Choose("ecMarshalFails", 2) == 1
		}
		if keyForm == 1 || (keyForm == 2 && !e.ecMarshalFails) {
			e.x509PairFails = zv.Choose("x509PairFails", 2) == 1
		}
		expectCertErr = keyForm == 0 || keyForm == 3 || e.ecMarshalFails || e.x509PairFails
		if sym {
			opts.LoadedCertificate = &x509.Certificate{Raw: []byte{9}}
			switch keyForm {
			case 1:
				opts.LoadedKey = &rsa.PrivateKey{}
			case 2:
				opts.LoadedKey = &ecdsa.PrivateKey{}
			case 3:
				opts.LoadedKey = c18Other{}
			}
		} else {
			opts.LoadedCertificate, opts.LoadedKey = c18NativeLoaded(keyForm, e.ecMarshalFails, e.x509PairFails)
		}
	}

	// --- roots ---
	caForm := zv.Choose("ca", 3) // none / file / loaded
	poolGiven := zv.Choose("pool", 2) == 1
	var givenPool *x509.CertPool
	if poolGiven {
		givenPool = x509.NewCertPool()
		e.newPools = 0
		opts.LoadedCAPool = givenPool
	}
	var loadedCA *x509.Certificate
	expectCAErr := false
	switch caForm {
	case 1:
		opts.CA = c18Fix + "myCA.crt"
		switch zv.Choose("ca-file", 3) {
		case 1:
			e.readFails, expectCAErr = true, true
			opts.CA = c18Fix + "does-not-exist.crt"
		case 2:
			// readable, but holds no certificate: nothing is added to the roots,
			// which must still be the supplied (here: empty) set, never the system pool
			e.noPEM = true
			opts.CA = c18Fix + "myclient.key"
		}
	case 2:
		if sym {
			loadedCA = &x509.Certificate{Raw: []byte{7}}
		} else {
			loadedCA = c18NativeCA()
		}
		opts.LoadedCA = loadedCA
	}

	// --- verification knobs ---
	opts.ServerName = []string{"", "srv"}[zv.Choose("servername", 2)]
	opts.InsecureSkipVerify = zv.Bool("insecure")
	opts.SessionTicketsDisabled = zv.Bool("tickets")
	var cb func([][]byte, [][]*x509.Certificate) error
	if zv.Choose("callback", 2) == 1 {
		cb = func([][]byte, [][]*x509.Certificate) error { return nil }
	}
	opts.VerifyPeerCertificate = cb
	var cache tls.ClientSessionCache
	if zv.Choose("cache", 2) == 1 {
		cache = tls.NewLRUClientSessionCache(1)
	}
	opts.ClientSessionCache = cache

	if sym {
		c18Stubs(e)
	}
	cfg, err := TLSClientAuth(opts)

	if expectCertErr || (expectCAErr && !expectCertErr) {
		zv.Reach("error")
		zv.Assert("unusable-material-is-an-error-not-a-config", err != nil && cfg == nil)
		return
	}
	zv.Assert("usable-options-build-a-config", err == nil && cfg != nil)
	if err != nil || cfg == nil {
		return
	}
	zv.Reach("config")
	zv.Assert("never-below-tls12", cfg.MinVersion == tls.VersionTLS12)
	zv.Assert("skip-verify-only-if-requested-and-no-servername", cfg.InsecureSkipVerify == zv.And(opts.InsecureSkipVerify, opts.ServerName == ""))
	zv.Assert("servername-carried", cfg.ServerName == opts.ServerName)
	zv.Assert("session-tickets-carried", cfg.SessionTicketsDisabled == opts.SessionTicketsDisabled)
	zv.Assert("callback-carried", (cfg.VerifyPeerCertificate == nil) == (cb == nil))
	zv.Assert("session-cache-carried", cfg.ClientSessionCache == cache)
	// client identity
	if certForm == 0 {
		zv.Assert("no-certificate-when-none-supplied", len(cfg.Certificates) == 0)
	} else {
		zv.Assert("exactly-the-supplied-client-certificate", len(cfg.Certificates) == 1)
		if sym && len(cfg.Certificates) == 1 {
			zv.Assert("certificate-is-the-loaded-one", len(cfg.Certificates[0].Certificate) == 1 && cfg.Certificates[0].Certificate[0][0] == 42)
		}
	}
	// roots
	switch {
	case caForm == 0 && !poolGiven:
		zv.Assert("system-pool-only-when-no-roots-supplied", cfg.RootCAs == nil)
	case caForm == 0:
		zv.Assert("supplied-pool-is-the-root-set", cfg.RootCAs == givenPool)
	default:
		zv.Assert("roots-set-when-a-ca-is-supplied", cfg.RootCAs != nil)
		if poolGiven {
			zv.Assert("supplied-pool-augmented-not-replaced", cfg.RootCAs == givenPool)
		}
		if sym && cfg.RootCAs != nil {
			if !poolGiven {
				zv.Assert("fresh-pool-not-system-pool", e.newPools == 1)
			}
			if caForm == 2 {
				zv.Assert("loaded-ca-added-to-roots", len(e.added[cfg.RootCAs]) == 1 && e.added[cfg.RootCAs][0] == loadedCA)
			} else {
				zv.Assert("ca-file-added-to-roots", e.appended[cfg.RootCAs] == 1)
			}
		}
	}
	zv.Observe("insecure", cfg.InsecureSkipVerify)
	zv.Observe("ncerts", len(cfg.Certificates))
	zv.Observe("roots", cfg.RootCAs != nil)
}

// c18NativeLoaded realises the loaded-certificate outcomes with the repository's fixtures.
func c18NativeLoaded(keyForm int, ecFails, pairFails bool) (*x509.Certificate, crypto.PrivateKey) {
	parse := func(file string) *x509.Certificate {
		data, err := os.ReadFile(c18Fix + file)
		if err != nil {
			panic(err)
		}
		b, _ := pem.Decode(data)
		c, err := x509.ParseCertificate(b.Bytes)
		if err != nil {
			panic(err)
		}
		return c
	}
	key := func(file string) crypto.PrivateKey {
		data, err := os.ReadFile(c18Fix + file)
		if err != nil {
			panic(err)
		}
		for {
			var b *pem.Block
			b, data = pem.Decode(data)
			if b == nil {
				panic("no private key in " + file)
			}
			if k, err := x509.ParsePKCS1PrivateKey(b.Bytes); err == nil {
				return k
			}
			if k, err := x509.ParseECPrivateKey(b.Bytes); err == nil {
				return k
			}
			if k, err := x509.ParsePKCS8PrivateKey(b.Bytes); err == nil {
				return k
			}
		}
	}
	switch keyForm {
	case 1:
		if pairFails {
			return parse("myclient.crt"), key("myCA.key") // mismatching pair
		}
		return parse("myclient.crt"), key("myclient.key")
	case 2:
		if ecFails {
			return parse("myclient-ecc.crt"), &ecdsa.PrivateKey{PublicKey: ecdsa.PublicKey{Curve: &elliptic.CurveParams{Name: "unknown"}}, D: big.NewInt(1)}
		}
		if pairFails {
			return parse("myclient.crt"), key("myclient-ecc.key") // mismatching pair
		}
		return parse("myclient-ecc.crt"), key("myclient-ecc.key")
	case 3:
		return parse("myclient.crt"), c18Other{}
	}
	return parse("myclient.crt"), nil
}

func c18NativeCA() *x509.Certificate {
	data, err := os.ReadFile(c18Fix + "myCA.crt")
	if err != nil {
		panic(err)
	}
	b, _ := pem.Decode(data)
	c, err := x509.ParseCertificate(b.Bytes)
	if err != nil {
		panic(err)
	}
	return c
}
