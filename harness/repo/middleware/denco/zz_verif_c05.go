//go:build verif

package denco

// C05 — trie router core: lookups are sound, complete, total and independent of
// the order in which patterns were given to Build.
//
// The harness builds the real router (Build runs concretely inside the engine, so
// a changed Build yields a different trie which the symbolic Lookup then exposes)
// and looks up a path of arbitrary bytes; the oracle is a naive segment matcher.

import (
	"net/http"
	"net/url"

	zv "github.com/go-openapi/runtime/internal/zzverif"
)

// c05Tables is the catalogue of pattern sets (DESIGN Appendix D).
var c05Tables = [][]string{
	{"/a/:id", "/a/:id/b", "/f/*w", "/s"},
	{"/*w", "/:p/m"},
	{"/*w", "/s"},
	{"/f/:b/*k", "/s/:x"},
	{"/:a", "/:a/:b", "/x/y"},
	{"/a/b", "/a/:p", "/a/:p/c", "/ab"},
	{"/r/x=:p", "/r/x=:p/y", "/r/:q"},
	{"/a/*w", "/a/b/c", "/a/:p/d"},
	{"/a/:p/:q", "/a/b/:q", "/a/:p/c"},
	{"/ab/:p", "/a/:p", "/abc"},
	// tables of router_test.go (shortened)
	{"/", "/path/to/route", "/path/to/other", "/path/to/route/a", "/path/to/:param", "/path/to/wildcard/*routepath", "/path/to/:param1/:param2"},
	{"/networks/:owner/:repo/events", "/orgs/:org/events", "/notifications/threads/:id"},
}

type c05Match struct {
	ok     bool
	names  []string
	values []string
	rank   []int // per segment: 0 literal, 1 single parameter, 2 wildcard
}

func c05IsParamStart(pat string, k int) bool {
	return pat[k] == ':' && k > 0 && (pat[k-1] == '/' || pat[k-1] == '=')
}

// c05Ref decides whether path instantiates pat and with which parameter texts.
// A ":name" text is a maximal run without '/'; "*name" takes the rest.
func c05Ref(pat, path string) c05Match {
	var m c05Match
	i := 0
	for k := 0; k < len(pat); {
		c := pat[k]
		if c05IsParamStart(pat, k) {
			e := k
			for e < len(pat) && pat[e] != '/' {
				e++
			}
			s := i
			for i < len(path) && path[i] != '/' {
				i++
			}
			m.names = append(m.names, pat[k+1:e])
			m.values = append(m.values, path[s:i])
			if pat[k-1] == '/' && len(m.rank) > 0 {
				m.rank[len(m.rank)-1] = 1 // the segment opened by that '/' is a parameter, not a literal
			} else {
				m.rank = append(m.rank, 1)
			}
			k = e
			continue
		}
		if c == '*' && k > 0 && pat[k-1] == '/' {
			m.names = append(m.names, pat[k+1:])
			m.values = append(m.values, path[i:])
			if len(m.rank) > 0 {
				m.rank[len(m.rank)-1] = 2 // the segment opened by that '/' is the wildcard
			} else {
				m.rank = append(m.rank, 2)
			}
			m.ok = true
			return m
		}
		if i >= len(path) || path[i] != c {
			return c05Match{}
		}
		if c == '/' {
			m.rank = append(m.rank, 0)
		}
		i++
		k++
	}
	m.ok = i == len(path)
	return m
}

func c05HasParam(pat string) bool {
	for k := range pat {
		if c05IsParamStart(pat, k) || (pat[k] == '*' && k > 0 && pat[k-1] == '/') {
			return true
		}
	}
	return false
}

// c05Reserved: the looked-up path contains one of the router's reserved bytes.
func c05Reserved(path string) bool {
	r := false
	for k := 0; k < len(path); k++ {
		c := path[k]
		r = zv.Or(r, zv.Or(c == ':', zv.Or(c == '*', c == '#')))
	}
	return r
}

func c05Build(tbl []string, order int) *Router {
	n := len(tbl)
	recs := make([]Record, n)
	for k := range tbl {
		j := k
		switch order {
		case 1:
			j = n - 1 - k
		case 2:
			j = (k + 1) % n
		}
		recs[k] = NewRecord(tbl[j], tbl[j])
	}
	rt := New()
	if err := rt.Build(recs); err != nil {
		zv.Assert("build-accepts-catalogue-table", false)
	}
	return rt
}

type c05Res struct {
	data     interface{}
	params   Params
	found    bool
	panicked bool
}

func c05Lookup(rt *Router, path string) (r c05Res) {
	defer func() {
		if recover() != nil {
			r = c05Res{panicked: true}
		}
	}()
	r.data, r.params, r.found = rt.Lookup(path)
	return r
}

// VerifC05Lookup: soundness, completeness, totality, literal preference.
func VerifC05Lookup() {
	nt := zv.Param("tables", len(c05Tables))
	tbl := c05Tables[zv.Choose("table", nt)]
	order := zv.Choose("order", zv.Param("orders", 2))
	rt := c05Build(tbl, order)
	path := zv.String("path", zv.Param("pathlen", 4))
	reserved := c05Reserved(path)

	res := c05Lookup(rt, path)
	zv.AssertExcept("lookup-never-panics", !res.panicked, reserved, "KF-C05-reserved-bytes")
	if res.panicked {
		return
	}

	// oracle: all patterns the path instantiates
	best := -1
	var bestM c05Match
	nonEmptyInst := false
	for k, pat := range tbl {
		m := c05Ref(pat, path)
		if !m.ok {
			continue
		}
		allNonEmpty := true
		for _, v := range m.values {
			if len(v) == 0 {
				allNonEmpty = false
			}
		}
		if allNonEmpty {
			nonEmptyInst = true
		}
		if best < 0 || c05Prefer(m, bestM) {
			best, bestM = k, m
		}
	}

	if res.found {
		zv.Reach("found")
		// soundness: value belongs to a pattern the path instantiates, with
		// exactly that pattern's parameters
		pat, isStr := res.data.(string)
		zv.Assert("value-is-a-registered-pattern", isStr)
		m := c05Ref(pat, path)
		zv.AssertExcept("sound-pattern-instantiated", m.ok, reserved, "KF-C05-reserved-bytes")
		if m.ok {
			zv.AssertExcept("sound-param-count", len(res.params) == len(m.names), reserved, "KF-C05-reserved-bytes")
			if len(res.params) == len(m.names) {
				for k := range m.names {
					zv.Assert("sound-param-name", res.params[k].Name == m.names[k])
					zv.AssertExcept("sound-param-value", zv.StrEq(res.params[k].Value, m.values[k]), reserved, "KF-C05-reserved-bytes")
				}
			}
			// literal preference (only meaningful when several patterns fit)
			if best >= 0 && allNonEmptyVals(m) && allNonEmptyVals(bestM) {
				zv.AssertExcept("literal-preferred", pat == tbl[best], reserved, "KF-C05-reserved-bytes")
			}
		}
	} else {
		zv.Reach("not-found")
		zv.AssertExcept("complete-nonempty-instantiation-found", !nonEmptyInst, reserved, "KF-C05-reserved-bytes")
	}
	// parameter-free pattern equal to the path returns that pattern's value
	for _, pat := range tbl {
		if !c05HasParam(pat) && pat == path {
			zv.Reach("static-hit")
			zv.Assert("static-pattern-found", res.found)
			if res.found {
				d, _ := res.data.(string)
				zv.Assert("static-pattern-value", d == pat)
			}
		}
	}
	zv.Observe("found", res.found)
	if res.found {
		d, _ := res.data.(string)
		zv.Observe("data", d)
		zv.Observe("nparams", len(res.params))
		for k, p := range res.params {
			if k < 3 {
				zv.Observe("pv"+string(rune('0'+k)), p.Value)
			}
		}
	}
}

func allNonEmptyVals(m c05Match) bool {
	for _, v := range m.values {
		if len(v) == 0 {
			return false
		}
	}
	return true
}

// c05Prefer: a is preferred to b when at the first segment where their kinds
// differ a is the more literal one (literal < single parameter < wildcard).
func c05Prefer(a, b c05Match) bool {
	for k := 0; k < len(a.rank) && k < len(b.rank); k++ {
		if a.rank[k] != b.rank[k] {
			return a.rank[k] < b.rank[k]
		}
	}
	return false
}

// VerifC05Order: the answer does not depend on the build order.
func VerifC05Order() {
	nt := zv.Param("tables", len(c05Tables))
	tbl := c05Tables[zv.Choose("table", nt)]
	o2 := 1 + zv.Choose("order", 2)
	rt1 := c05Build(tbl, 0)
	rt2 := c05Build(tbl, o2)
	path := zv.String("path", zv.Param("pathlen", 4))
	reserved := c05Reserved(path)
	r1 := c05Lookup(rt1, path)
	r2 := c05Lookup(rt2, path)
	if r1.panicked || r2.panicked {
		zv.AssertExcept("order-lookup-never-panics", false, reserved, "KF-C05-reserved-bytes")
		return
	}
	zv.Assert("order-same-found", r1.found == r2.found)
	if r1.found && r2.found {
		zv.Reach("both-found")
		d1, _ := r1.data.(string)
		d2, _ := r2.data.(string)
		zv.Assert("order-same-value", d1 == d2)
		zv.Assert("order-same-param-count", len(r1.params) == len(r2.params))
		if len(r1.params) == len(r2.params) {
			for k := range r1.params {
				zv.Assert("order-same-param-name", r1.params[k].Name == r2.params[k].Name)
				zv.Assert("order-same-param-value", zv.StrEq(r1.params[k].Value, r2.params[k].Value))
			}
		}
	}
}

// ---- realistic tables, paths around their patterns ----

// c05Rest: tables shaped like API route sets (longer literals, shared prefixes,
// parameters in the middle); looked-up paths are a pattern cut at any byte
// (placeholders instantiated by "v") followed by arbitrary bytes: prefixes,
// overruns and near misses of registered routes.
var c05Rest = [][]string{
	{"/tags/:tag/files/:name", "/orders", "/users/:id"},
	{"/api/teams/:t", "/api/teams/:t/members/:m", "/api/team", "/api/*rest"},
	{"/v1/pets", "/v1/pets/:id", "/v1/pets/:id/owner", "/v1/petstore"},
	{"/files/:name/meta", "/files/*path", "/file"},
	{"/a/b/c/d", "/a/b/:x/d", "/a/:y/c/e", "/:z/b/c/f"},
	{"/networks/:owner/:repo/events", "/orgs/:org/events", "/notifications/threads/:id", "/notifications"},
}

// c05Instance instantiates every placeholder of pat with "v" (wildcards too).
func c05Instance(pat string) string {
	out := ""
	for k := 0; k < len(pat); {
		if c05IsParamStart(pat, k) || (pat[k] == '*' && k > 0 && pat[k-1] == '/') {
			for k < len(pat) && pat[k] != '/' {
				k++
			}
			out += "v"
			continue
		}
		out += pat[k : k+1]
		k++
	}
	return out
}

// VerifC05Around: soundness, completeness and totality for paths around the
// registered routes of realistic tables.
func VerifC05Around() {
	tbl := c05Rest[zv.Choose("table", zv.Param("rest", len(c05Rest)))]
	rt := zv.Cached("c05-rest-"+tbl[0], func() interface{} { return c05Build(tbl, 0) }).(*Router)
	inst := c05Instance(tbl[zv.Choose("pattern", len(tbl))])
	cut := zv.Choose("cut", len(inst)+1)
	path := inst[:cut] + zv.String("tail", zv.Param("taillen", 1))
	reserved := c05Reserved(path)
	res := c05Lookup(rt, path)
	zv.AssertExcept("around-lookup-never-panics", !res.panicked, reserved, "KF-C05-reserved-bytes")
	if res.panicked {
		return
	}
	nonEmptyInst := false
	for _, pat := range tbl {
		if m := c05Ref(pat, path); m.ok && allNonEmptyVals(m) {
			nonEmptyInst = true
		}
	}
	if !res.found {
		zv.Reach("around-not-found")
		zv.AssertExcept("around-complete", !nonEmptyInst, reserved, "KF-C05-reserved-bytes")
		return
	}
	zv.Reach("around-found")
	pat, isStr := res.data.(string)
	zv.Assert("around-value-is-a-registered-pattern", isStr)
	m := c05Ref(pat, path)
	zv.AssertExcept("around-sound-pattern-instantiated", m.ok, reserved, "KF-C05-reserved-bytes")
	if !m.ok {
		return
	}
	zv.AssertExcept("around-sound-param-count", len(res.params) == len(m.names), reserved, "KF-C05-reserved-bytes")
	if len(res.params) == len(m.names) {
		for k := range m.names {
			zv.Assert("around-sound-param-name", res.params[k].Name == m.names[k])
			zv.AssertExcept("around-sound-param-value", zv.StrEq(res.params[k].Value, m.values[k]), reserved, "KF-C05-reserved-bytes")
		}
	}
}

// ---- large tables ("up to thousands of records") ----

func c05Itoa(n int) string {
	if n == 0 {
		return "0"
	}
	s := ""
	for n > 0 {
		s = string(rune('0'+n%10)) + s
		n /= 10
	}
	return s
}

const c05LongSeg = "-a-fairly-long-static-segment-after-the-number"

// c05LargeTable: n groups of three records below a group-specific long prefix
// (the prefixes differ from their second byte on, so the trie gets ~50 slots per group):
// a parameter record, a static sibling that shares two bytes with nothing else,
// and a deeper parameter record (so that a lookup follows the static edge first
// and has to come back to the parameter edge).
func c05LargeTable(n int) []Record {
	recs := make([]Record, 0, 3*n)
	for i := 0; i < n; i++ {
		p := "/" + c05Itoa(i) + c05LongSeg
		recs = append(recs, NewRecord(p+"/:id", "P"+c05Itoa(i)))
		recs = append(recs, NewRecord(p+"/zq", "S"+c05Itoa(i)))
		recs = append(recs, NewRecord(p+"/:id/sub/:k", "D"+c05Itoa(i)))
	}
	return recs
}

// VerifC05Large: a table of thousands of records (built once, concretely, by
// the real Build); lookups below a few of the groups with an arbitrary tail.
func VerifC05Large() {
	n := zv.Param("groups", 700)
	rt := zv.Cached("c05-large", func() interface{} {
		r := New()
		if err := r.Build(c05LargeTable(n)); err != nil {
			panic("c05: large table rejected: " + err.Error())
		}
		return r
	}).(*Router)
	g := []int{0, 5, n / 7, n / 3, n / 2, 2 * n / 3, n - 2, n - 1}[zv.Choose("group", 8)]
	// the tail starts like the static sibling ("z", "zq") or not at all and ends
	// in arbitrary bytes: the lookup follows the static edge and must come back
	tail := []string{"", "z", "zq"}[zv.Choose("tail-prefix", 3)] + zv.String("tail", zv.Param("taillen", 1))
	reserved := c05Reserved(tail)
	path := "/" + c05Itoa(g) + c05LongSeg + "/" + tail
	deep := zv.Choose("deep", 2) == 1
	if deep {
		path += "/sub/kk"
	}
	res := c05Lookup(rt, path)
	zv.AssertExcept("large-lookup-never-panics", !res.panicked, reserved, "KF-C05-reserved-bytes")
	if res.panicked {
		return
	}
	slash := false
	for k := 0; k < len(tail); k++ {
		slash = zv.Or(slash, tail[k] == '/')
	}
	if slash || len(tail) == 0 {
		// not an instantiation with a non-empty single-segment text (or another shape): only soundness
		if res.found {
			d, _ := res.data.(string)
			zv.Assert("large-sound-group", len(d) > 1 && d[1:] == c05Itoa(g))
		}
		return
	}
	want := "P" + c05Itoa(g)
	if deep {
		want = "D" + c05Itoa(g)
	} else if tail == "zq" {
		want = "S" + c05Itoa(g)
	}
	zv.Reach("large-found")
	zv.AssertExcept("large-complete", res.found, reserved, "KF-C05-reserved-bytes")
	if !res.found {
		return
	}
	d, _ := res.data.(string)
	zv.AssertExcept("large-value", d == want, reserved, "KF-C05-reserved-bytes")
	if d != want {
		return
	}
	if want[0] == 'S' {
		zv.Assert("large-static-no-params", len(res.params) == 0)
		return
	}
	zv.Assert("large-param-count", (deep && len(res.params) == 2) || (!deep && len(res.params) == 1))
	if len(res.params) > 0 {
		zv.Assert("large-param-name", res.params[0].Name == "id")
		zv.AssertExcept("large-param-value", zv.StrEq(res.params[0].Value, tail), reserved, "KF-C05-reserved-bytes")
	}
	if deep && len(res.params) == 2 {
		zv.Assert("large-second-param", res.params[1].Name == "k" && res.params[1].Value == "kk")
	}
}

// ---- the trie seen through the handler built by Mux.Build ----

type c05MuxRec struct {
	ran    string
	params Params
	status int
}

var c05Mux *c05MuxRec

type c05MuxWriter struct{ hdr http.Header }

func (w *c05MuxWriter) Header() http.Header         { return w.hdr }
func (w *c05MuxWriter) Write(p []byte) (int, error) { return len(p), nil }
func (w *c05MuxWriter) WriteHeader(c int)           { c05Mux.status = c }

// VerifC05Mux: the handler of Mux.Build dispatches on the request's method and
// decoded path exactly as Lookup does on that path (the escaped form of the URL
// plays no role), and answers 404 otherwise.
func VerifC05Mux() {
	tbl := c05Tables[zv.Choose("table", zv.Param("tables", 5))]
	mux := NewMux()
	var hs []Handler
	for _, pat := range tbl {
		pat := pat
		hs = append(hs, mux.GET(pat, func(w http.ResponseWriter, r *http.Request, ps Params) {
			c05Mux.ran, c05Mux.params = pat, ps
		}))
	}
	h, err := mux.Build(hs)
	if err != nil {
		zv.Assert("mux-builds", false)
		return
	}
	path := "/" + zv.String("path", zv.Param("muxlen", 3))
	reserved := c05Reserved(path)
	// the same decoded path may arrive under any escaped spelling
	u := &url.URL{Path: path}
	if zv.Choose("escaped-spelling-given", 2) == 1 {
		u.RawPath = "/%41lias"
	}
	method := []string{"GET", "POST"}[zv.Choose("method", 2)]
	c05Mux = &c05MuxRec{}
	h.ServeHTTP(&c05MuxWriter{hdr: http.Header{}}, &http.Request{Method: method, URL: u, Header: http.Header{}})

	rt := c05Build(tbl, 0)
	want := c05Lookup(rt, path)
	if want.panicked {
		return
	}
	if method == "GET" && want.found {
		zv.Reach("mux-dispatched")
		d, _ := want.data.(string)
		zv.AssertExcept("mux-runs-the-looked-up-handler", c05Mux.ran == d, reserved, "KF-C05-reserved-bytes")
		zv.Assert("mux-param-count", len(c05Mux.params) == len(want.params))
		for k := range want.params {
			if k < len(c05Mux.params) {
				zv.Assert("mux-param", c05Mux.params[k].Name == want.params[k].Name && zv.StrEq(c05Mux.params[k].Value, want.params[k].Value))
			}
		}
		return
	}
	zv.Reach("mux-not-found")
	zv.Assert("mux-no-handler-runs", c05Mux.ran == "")
	zv.Assert("mux-answers-404", c05Mux.status == http.StatusNotFound)
}
