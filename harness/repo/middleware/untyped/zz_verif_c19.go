//go:build verif

package untyped

// C19 — API validation passes exactly when registrations match the description.

import (
	"io"
	"strings"

	"github.com/go-openapi/analysis"
	"github.com/go-openapi/errors"
	"github.com/go-openapi/loads"
	"github.com/go-openapi/runtime"
	"github.com/go-openapi/spec"

	zv "github.com/go-openapi/runtime/internal/zzverif"
)

func c19List(name string, max int) []string {
	n := zv.Choose(name+".n", max+1)
	var l []string
	for k := 0; k < n; k++ {
		s := zv.StringN(name+string(rune('0'+k)), 1)
		zv.Assume(s[0] > 0x20 && s[0] < 0x7f) // names are printable ASCII (media types, methods, paths, scheme names)
		for _, o := range l {
			zv.Assume(!zv.StrEq(o, s)) // key sets: duplicate-free
		}
		l = append(l, s)
	}
	return l
}

func c19Has(l []string, s string) bool {
	r := false
	for _, o := range l {
		r = zv.Or(r, zv.StrEq(o, s))
	}
	return r
}

func c19Sorted(l []string) bool {
	ok := true
	for k := 1; k < len(l); k++ {
		ok = zv.And(ok, l[k-1] < l[k])
	}
	return ok
}

// VerifC19Verify: verify(name, registrations, expectations) for arbitrary
// duplicate-free lists of one-byte names.
func VerifC19Verify() {
	max := zv.Param("listlen", 2)
	regs := c19List("reg", max)
	exps := c19List("exp", max)
	regsCopy := append([]string(nil), regs...)
	expsCopy := append([]string(nil), exps...)
	api := &API{}
	err := api.verify("things", regs, exps)
	regs, exps = regsCopy, expsCopy

	same := true
	for _, r := range regs {
		same = zv.And(same, c19Has(exps, r))
	}
	for _, e := range exps {
		same = zv.And(same, c19Has(regs, e))
	}
	zv.Assert("verify-passes-iff-sets-coincide", (err == nil) == same)
	if err == nil {
		zv.Reach("pass")
		return
	}
	zv.Reach("fail")
	vf, ok := err.(*errors.APIVerificationFailed)
	zv.Assert("verification-error-type", ok)
	if !ok {
		return
	}
	zv.Assert("section-named", vf.Section == "things")
	// every superfluous item, once, by name, sorted
	for _, r := range regs {
		zv.Assert("superfluous-reported-iff-not-expected", c19Has(vf.MissingSpecification, r) == !c19Has(exps, r))
	}
	for _, e := range exps {
		zv.Assert("missing-reported-iff-not-registered", c19Has(vf.MissingRegistration, e) == !c19Has(regs, e))
	}
	for _, m := range vf.MissingSpecification {
		zv.Assert("reported-superfluous-is-a-registration", c19Has(regs, m))
	}
	for _, m := range vf.MissingRegistration {
		zv.Assert("reported-missing-is-an-expectation", c19Has(exps, m))
	}
	zv.Assert("superfluous-sorted-unique", c19Sorted(vf.MissingSpecification))
	zv.Assert("missing-sorted-unique", c19Sorted(vf.MissingRegistration))
}

// ---- Validate over description × registration catalogue ----

type c19Spec struct {
	consumes, produces []string
	opConsumes         []string
	ops                []string // "METHOD /path"
	secDefs            []string
	secReqs            []string // requirement on the first operation
}

var c19Specs = []c19Spec{
	{consumes: []string{"application/json"}, produces: []string{"application/json"}, ops: []string{"GET /a", "POST /a"}},
	{consumes: []string{"application/json"}, produces: []string{"application/json", "text/plain"}, opConsumes: []string{"text/csv"}, ops: []string{"GET /a", "POST /b"}, secDefs: []string{"key"}, secReqs: []string{"key"}},
	{consumes: []string{"application/json"}, produces: []string{"application/json"}, ops: []string{"GET /a"}, secDefs: []string{"key", "unused"}, secReqs: []string{"key"}},
	{consumes: []string{"application/json"}, produces: []string{"application/json"}, ops: []string{"GET /a"}, secDefs: []string{"lonely"}},
}

func c19Doc(s c19Spec) *loads.Document {
	sw := &spec.Swagger{}
	sw.Swagger = "2.0"
	sw.BasePath = "/"
	sw.Consumes, sw.Produces = s.consumes, s.produces
	sw.Paths = &spec.Paths{Paths: map[string]spec.PathItem{}}
	if len(s.secDefs) > 0 {
		sw.SecurityDefinitions = map[string]*spec.SecurityScheme{}
		for _, d := range s.secDefs {
			sw.SecurityDefinitions[d] = spec.APIKeyAuth("X-"+d, "header")
		}
	}
	for k, o := range s.ops {
		parts := strings.SplitN(o, " ", 2)
		op := &spec.Operation{}
		op.ID = "op" + string(rune('0'+k))
		op.Responses = &spec.Responses{}
		op.Responses.StatusCodeResponses = map[int]spec.Response{200: {}}
		if k == 0 {
			for _, r := range s.secReqs {
				op.Security = append(op.Security, map[string][]string{r: {}})
			}
		}
		if k == 1 {
			op.Consumes = s.opConsumes
		}
		pi := sw.Paths.Paths[parts[1]]
		switch parts[0] {
		case "GET":
			pi.Get = op
		case "POST":
			pi.Post = op
		case "PUT":
			pi.Put = op
		}
		sw.Paths.Paths[parts[1]] = pi
	}
	doc := &loads.Document{}
	zv.SetField(doc, "spec", sw)
	zv.SetField(doc, "origSpec", sw)
	doc.Analyzer = analysis.New(sw)
	return doc
}

func c19Required(s c19Spec) (cons, prods, ops, auths []string) {
	add := func(l []string, x ...string) []string {
		for _, e := range x {
			found := false
			for _, o := range l {
				if o == e {
					found = true
				}
			}
			if !found {
				l = append(l, e)
			}
		}
		return l
	}
	cons = add(cons, s.consumes...)
	cons = add(cons, s.opConsumes...)
	prods = add(prods, s.produces...)
	ops = add(ops, s.ops...)
	auths = add(auths, s.secReqs...)
	return
}

// c19Defaults: a description that never mentions application/json, validated on
// an API that keeps its built-in JSON consumer and producer: those registrations
// are superfluous and have to be reported like any other.
func c19Defaults() {
	s := c19Spec{consumes: []string{"text/plain"}, produces: []string{"text/plain"}, ops: []string{"GET /a"}}
	api := NewAPI(c19Doc(s))
	api.RegisterConsumer("text/plain", runtime.ConsumerFunc(func(io.Reader, interface{}) error { return nil }))
	api.RegisterProducer("text/plain", runtime.ProducerFunc(func(io.Writer, interface{}) error { return nil }))
	api.RegisterOperation("GET", "/a", runtime.OperationHandlerFunc(func(interface{}) (interface{}, error) { return nil, nil }))
	err := api.Validate()
	zv.Reach("built-in-defaults")
	zv.Assert("superfluous-built-in-registration-is-reported", err != nil)
	vf, ok := err.(*errors.APIVerificationFailed)
	if ok {
		zv.Assert("built-in-registration-reported-by-name", vf.Section == "consumes" && len(vf.MissingSpecification) == 1 && vf.MissingSpecification[0] == "application/json")
	}
}

// VerifC19Validate: exact registrations, each single omission, each single addition.
func VerifC19Validate() {
	if zv.Choose("built-in-defaults", 2) == 1 {
		c19Defaults()
		return
	}
	si := zv.Choose("spec", len(c19Specs))
	s := c19Specs[si]
	doc := zv.Cached("c19-"+string(rune('0'+si)), func() interface{} { return c19Doc(s) }).(*loads.Document)
	api := NewAPI(doc).WithoutJSONDefaults()
	cons, prods, ops, auths := c19Required(s)
	// variation: category 0..3 (consumer, producer, operation, auth) × {exact, omit k-th, add one}
	cat := zv.Choose("category", 4)
	vari := zv.Choose("variation", 3)
	lists := [][]string{cons, prods, ops, auths}
	extra := []string{"text/zzz", "zzz/last", "PUT /zzz", "zauth"}[cat]
	if zv.Choose("extraSortsFirst", 2) == 1 {
		extra = []string{"aaa/first", "aaa/first", "DELETE /a", "aauth"}[cat]
	}
	omitted, added := "", ""
	switch vari {
	case 1:
		if len(lists[cat]) == 0 {
			return
		}
		k := zv.Choose("omit", len(lists[cat]))
		omitted = lists[cat][k]
		lists[cat] = append(append([]string(nil), lists[cat][:k]...), lists[cat][k+1:]...)
	case 2:
		added = extra
		lists[cat] = append(append([]string(nil), lists[cat]...), extra)
	}
	for _, c := range lists[0] {
		api.RegisterConsumer(c, runtime.ConsumerFunc(func(io.Reader, interface{}) error { return nil }))
	}
	for _, p := range lists[1] {
		api.RegisterProducer(p, runtime.ProducerFunc(func(io.Writer, interface{}) error { return nil }))
	}
	for _, o := range lists[2] {
		parts := strings.SplitN(o, " ", 2)
		api.RegisterOperation(parts[0], parts[1], runtime.OperationHandlerFunc(func(interface{}) (interface{}, error) { return nil, nil }))
	}
	for _, a := range lists[3] {
		api.RegisterAuth(a, runtime.AuthenticatorFunc(func(interface{}) (bool, interface{}, error) { return false, nil, nil }))
	}
	err := api.Validate()
	unusedDef := len(s.secDefs) != len(s.secReqs)
	if vari == 0 && !unusedDef {
		zv.Reach("exact")
		zv.Assert("exact-registrations-validate", err == nil)
		return
	}
	zv.Reach("mismatch")
	zv.Assert("mismatch-is-reported", err != nil)
	vf, ok := err.(*errors.APIVerificationFailed)
	zv.Assert("verification-error-type", ok)
	if !ok {
		return
	}
	section := []string{"consumes", "produces", "operation", "auth scheme"}[cat]
	if vari == 0 {
		zv.Assert("unused-definition-reported", vf.Section == "security definitions")
		return
	}
	zv.Assert("first-failing-category-reported", vf.Section == section)
	if vari == 1 {
		zv.Assert("omission-reported-by-name", len(vf.MissingRegistration) == 1 && vf.MissingRegistration[0] == omitted && len(vf.MissingSpecification) == 0)
	} else {
		zv.Assert("addition-reported-by-name", len(vf.MissingSpecification) == 1 && vf.MissingSpecification[0] == added && len(vf.MissingRegistration) == 0)
	}
}
