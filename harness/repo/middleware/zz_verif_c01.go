//go:build verif

package middleware

// C01 — spec-driven dispatch: path+method select exactly the designated operation.

import (
	"net/http"
	"net/url"
	"path"
	"sort"
	"strings"

	"github.com/go-openapi/errors"

	zv "github.com/go-openapi/runtime/internal/zzverif"
)

var c01Descs = []vAPIDesc{
	{basePath: "/api", ops: []vOp{
		{method: "GET", path: "/pets", id: "listPets"}, {method: "POST", path: "/pets", id: "addPet"},
		{method: "GET", path: "/pets/{id}", id: "getPet"}, {method: "DELETE", path: "/pets/{id}", id: "delPet"},
		{method: "GET", path: "/pets/mine", id: "minePets"}}},
	{basePath: "/", ops: []vOp{
		{method: "GET", path: "/{a}/{b}", id: "ab"}, {method: "GET", path: "/x/y", id: "xy"}, {method: "PUT", path: "/x/{b}", id: "xb"}}},
	{basePath: "/api/", ops: []vOp{
		{method: "GET", path: "/v/{a}.{b}", id: "composite"}, {method: "POST", path: "/v/{a}", id: "single"}}},
	{basePath: "", ops: []vOp{
		{method: "GET", path: "/a/{p}/c", id: "apc"}, {method: "POST", path: "/a/b/c", id: "abc"}, {method: "DELETE", path: "/a/{p}", id: "ap"}}},
	// a base path that is not in canonical form
	{basePath: "/api//v1", ops: []vOp{
		{method: "GET", path: "/pets/{id}", id: "getPetV1"}, {method: "PUT", path: "/pets/{id}", id: "putPetV1"}}},
	// placeholder names that are prefixes of one another
	{basePath: "/", ops: []vOp{
		{method: "GET", path: "/orgs/{orgId}/members/{org}", id: "member"}, {method: "GET", path: "/pets/{pet}/owners/{petId}", id: "owner"}}},
}

// request-target prefixes per description (the symbolic tail is appended)
var c01Prefixes = [][]string{
	{"/api/pets", "/api/pets/", "/api/", "/", "/api/pets/%2", "/api/pets/a%2"},
	{"/", "/x/", "/x", "/x/%2"},
	{"/api/v/", "/api/v"},
	{"/a/", "/a/b/", "/a", "/a/%2"},
	{"/api/v1/pets/", "/api/v1/pets", "/api//v1/pets/"},
	{"/orgs/o1/members/", "/orgs/o1/members", "/pets/p1/owners/"},
}

var c01Methods = []string{"GET", "get", "POST", "Delete", "PUT"}

// c01Unescape is the reference percent-decoder (valid encodings only).
func c01Unescape(s string) string {
	var out []byte
	for i := 0; i < len(s); i++ {
		if s[i] == '%' && i+2 < len(s)+0 && i+2 <= len(s)-1+0 {
			out = append(out, c01Hex(s[i+1])<<4|c01Hex(s[i+2]))
			i += 2
			continue
		}
		out = append(out, s[i])
	}
	return string(out)
}

func c01Hex(c byte) byte {
	switch {
	case c >= '0' && c <= '9':
		return c - '0'
	case c >= 'a' && c <= 'f':
		return c - 'a' + 10
	case c >= 'A' && c <= 'F':
		return c - 'A' + 10
	}
	return 0
}

type c01Fit struct {
	ok     bool
	names  []string
	values []string
	lits   []bool // per segment: literal?
}

// c01Match: does the cleaned escaped path (below the base path) instantiate tpl?
func c01Match(tpl, p string) c01Fit {
	ts := strings.Split(tpl, "/")
	ps := strings.Split(p, "/")
	if len(ts) != len(ps) {
		return c01Fit{}
	}
	var f c01Fit
	for k := range ts {
		t, seg := ts[k], ps[k]
		if !strings.Contains(t, "{") {
			if t != seg {
				return c01Fit{}
			}
			f.lits = append(f.lits, true)
			continue
		}
		f.lits = append(f.lits, false)
		if strings.HasPrefix(t, "{") && strings.HasSuffix(t, "}") && strings.Count(t, "{") == 1 {
			f.names = append(f.names, t[1:len(t)-1])
			f.values = append(f.values, seg)
			continue
		}
		// composite "{a}.{b}": outside this oracle (handled separately)
		return c01Fit{}
	}
	f.ok = true
	return f
}

func c01Better(a, b c01Fit) bool {
	for k := range a.lits {
		if k < len(b.lits) && a.lits[k] != b.lits[k] {
			return a.lits[k]
		}
	}
	return false
}

// VerifC01Dispatch drives the real router middleware (NewRouter over a Context
// built by the real constructors) with a symbolic request target.
func VerifC01Dispatch() {
	di := zv.Choose("desc", zv.Param("descs", len(c01Descs)))
	d := c01Descs[di]
	ctx := zv.Cached("c01-"+string(rune('0'+di)), func() interface{} {
		ctx := NewRoutableContext(vDoc(vSwagger(d)), vNewAPI(d), nil)
		ctx.router = DefaultRouter(ctx.spec, ctx.api, WithDefaultRouterLoggerFunc(ctx.debugLogf))
		return ctx
	}).(*Context)
	vRec = &vRecorder{}
	method := c01Methods[zv.Choose("method", len(c01Methods))]
	prefix := c01Prefixes[di][zv.Choose("prefix", len(c01Prefixes[di]))]
	tail := zv.String("tail", zv.Param("taillen", 3))
	for k := 0; k < len(tail); k++ {
		c := tail[k]
		// what net/http can deliver in a path: no CTLs, no '?' '#' (they end the path)
		zv.Assume(zv.And(zv.And(c > 0x20, c != 0x7f), zv.And(c != '?', c != '#')))
	}
	raw := prefix + tail
	decoded, err := url.PathUnescape(raw)
	if err != nil {
		return // invalid percent-encoding never reaches a handler
	}
	zv.Reach("valid-target")
	r := &http.Request{Method: method, Header: http.Header{}, URL: &url.URL{Path: decoded, RawPath: raw}}
	if r.URL.EscapedPath() != raw {
		return // net/http would have normalised it differently; outside the template
	}

	ran := ""
	var got *MatchedRoute
	next := http.HandlerFunc(func(rw http.ResponseWriter, rq *http.Request) {
		got = MatchedRouteFrom(rq)
		if got != nil {
			got.Handler.ServeHTTP(rw, rq)
		}
		ran = vRec.ranID
	})
	rw := vNewWriter()
	NewRouter(ctx, next).ServeHTTP(rw, r)

	// ---- reference dispatcher ----
	clean := path.Clean(raw)
	bp := path.Clean(d.basePath)
	if bp == "/" || bp == "." {
		bp = ""
	}
	under := strings.HasPrefix(clean, bp+"/") || clean == bp
	rel := strings.TrimPrefix(clean, bp)
	if rel == "" {
		rel = "/"
	}
	mu := vUpper(method)
	bestOp := -1
	var bestFit c01Fit
	allowed := map[string]bool{}
	composite := false
	if under {
		for k, o := range d.ops {
			if strings.Count(strings.Split(o.path, "/")[len(strings.Split(o.path, "/"))-1], "{") > 1 {
				composite = true
				continue
			}
			f := c01Match(o.path, rel)
			if !f.ok {
				continue
			}
			if o.method == mu {
				if bestOp < 0 || c01Better(f, bestFit) {
					bestOp, bestFit = k, f
				}
			} else {
				allowed[o.method] = true
			}
		}
	}
	// empty placeholder texts are matched or not at the router's discretion
	// (C05 demands completeness for non-empty texts only)
	emptyParam := false
	for _, v := range bestFit.values {
		if v == "" {
			emptyParam = true
		}
	}
	if composite {
		return // composite templates are checked by VerifC01Composite
	}
	if bestOp >= 0 && !emptyParam {
		zv.Reach("dispatched")
		zv.Assert("designated-operation-runs", ran == d.ops[bestOp].id)
		zv.Assert("handler-runs-once", vRec.ranCount == 1)
		if got != nil && ran == d.ops[bestOp].id {
			zv.Assert("path-pattern", got.PathPattern == path.Join(d.basePath, d.ops[bestOp].path))
			for k, name := range bestFit.names {
				v, _, ok := got.Params.GetOK(name)
				zv.Assert("param-present", ok)
				if ok {
					zv.Assert("param-value-is-decoded-text", zv.StrEq(v[len(v)-1], c01Unescape(bestFit.values[k])))
				}
			}
			zv.Assert("no-extra-params", len(got.Params) == len(bestFit.names))
		}
		return
	}
	if bestOp >= 0 && emptyParam {
		return
	}
	// no template fits under this method: no handler, 405 with Allow or 404
	zv.Assert("no-handler-runs", vRec.ranCount == 0 && ran == "")
	anyEmpty := false
	if under {
		for _, o := range d.ops {
			f := c01Match(o.path, rel)
			for _, v := range f.values {
				if f.ok && v == "" {
					anyEmpty = true
				}
			}
		}
	}
	if anyEmpty {
		return
	}
	zv.Assert("error-responder-called", vRec.errCount == 1)
	if len(allowed) > 0 {
		zv.Reach("405")
		mna, ok := vRec.servedErr.(*errors.MethodNotAllowedError)
		zv.Assert("405-method-not-allowed", ok)
		if ok {
			gotAllowed := append([]string(nil), mna.Allowed...)
			sort.Strings(gotAllowed)
			var want []string
			for m := range allowed {
				want = append(want, m)
			}
			sort.Strings(want)
			zv.Assert("allow-lists-exactly-the-fitting-methods", strings.Join(gotAllowed, ",") == strings.Join(want, ","))
		}
	} else {
		zv.Reach("404")
		e, ok := vRec.servedErr.(errors.Error)
		zv.Assert("404-not-found", ok && e.Code() == http.StatusNotFound)
	}
}
