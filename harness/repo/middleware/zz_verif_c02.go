//go:build verif

package middleware

// C02 — security requirements are an OR of ANDs; nothing runs unless one is satisfied.

import (
	stderrors "errors"
	"net/http"
	"net/url"

	"github.com/go-openapi/errors"
	"github.com/go-openapi/runtime"
	"github.com/go-openapi/runtime/middleware/untyped"
	"github.com/go-openapi/runtime/security"
	"github.com/go-openapi/spec"

	zv "github.com/go-openapi/runtime/internal/zzverif"
)

// requirement structures: ordered alternatives, each a list of scheme names with scopes.
// scheme "u" is declared in the description but has no registered authenticator.
type c02Req struct {
	name   string
	scopes []string
}

var c02Structs = [][][]c02Req{
	{{{"a", nil}}},
	{{{"a", nil}}, {{"b", nil}}},
	{{{"a", nil}, {"b", nil}}},
	{{{"a", nil}, {"b", nil}}, {{"c", nil}}},
	{{{"a", nil}}, {}},
	{{}, {{"a", nil}}},
	{{{"a", []string{"r", "w"}}}, {{"b", []string{"r"}}}},
	{{{"b", nil}, {"a", nil}}, {}},
	{{{"a", nil}, {"b", nil}, {"c", nil}}},
	{{{"a", nil}, {"u", nil}}},
	{{{"u", nil}, {"a", nil}}, {{"b", nil}}},
	{{{"u", nil}}},
}

const (
	c02NotApplicable = iota
	c02Accept
	c02AcceptNil
	c02Reject
)

// scripted per-path outcomes, reached through a package-level variable so that
// the API built once stays immutable.
type c02Script struct {
	outcome    map[string]int
	calls      []string
	scopesSeen map[string][]string
	authz      int // 0 accept, 1 deny with errors.Error(418), 2 deny with a plain error
	authzCalls int
	authzPrinc interface{}
	handlerRan int
	handlerPr  interface{}
	handlerSc  []string
}

var c02S *c02Script

var errC02 = map[string]error{
	"a": errors.New(401, "a rejects"),
	"b": errors.New(401, "b rejects"),
	"c": errors.New(401, "c rejects"),
}

func c02Auth(name string) runtime.Authenticator {
	return runtime.AuthenticatorFunc(func(params interface{}) (bool, interface{}, error) {
		c02S.calls = append(c02S.calls, name)
		if sr, ok := params.(*security.ScopedAuthRequest); ok {
			c02S.scopesSeen[name] = sr.RequiredScopes
		}
		switch c02S.outcome[name] {
		case c02Accept:
			return true, "principal-" + name, nil
		case c02AcceptNil:
			return true, nil, nil
		case c02Reject:
			return true, nil, errC02[name]
		}
		return false, nil, nil
	})
}

// c02Perms lists the evaluation orders of n schemes (n ≤ 3: all of them).
func c02Perms(n int) [][]int {
	switch n {
	case 0:
		return [][]int{{}}
	case 1:
		return [][]int{{0}}
	case 2:
		return [][]int{{0, 1}, {1, 0}}
	}
	return [][]int{{0, 1, 2}, {0, 2, 1}, {1, 0, 2}, {1, 2, 0}, {2, 0, 1}, {2, 1, 0}}
}

// c02Orders lists, for structure si, every assignment of an evaluation order to
// each of its alternatives.
func c02Orders(si int) [][][]int {
	res := [][][]int{{}}
	for _, alt := range c02Structs[si] {
		var next [][][]int
		for _, pre := range res {
			for _, p := range c02Perms(len(alt)) {
				next = append(next, append(append([][]int{}, pre...), p))
			}
		}
		res = next
	}
	return res
}

// c02Desc describes structure si; the scheme names of every alternative are
// inserted into the requirement map in the order ord gives. The order in which
// the schemes of an alternative are consulted is the iteration order of that
// map (analysis.SecurityRequirementsFor ranges over it): under the engine, whose
// maps iterate in insertion order, ord therefore is the evaluation order, and
// every evaluation order is explored by drawing ord; the native build iterates
// from a random start, so there ord is only the most likely order.
func c02Desc(si int, global bool, ord [][]int) vAPIDesc {
	st := c02Structs[si]
	var reqs []map[string][]string
	for ai, alt := range st {
		m := map[string][]string{}
		for _, k := range ord[ai] {
			r := alt[k]
			sc := r.scopes
			if sc == nil {
				sc = []string{}
			}
			m[r.name] = sc
		}
		reqs = append(reqs, m)
	}
	d := vAPIDesc{basePath: "/", secDefs: map[string]*spec.SecurityScheme{
		"a": spec.APIKeyAuth("X-A", "header"), "b": spec.APIKeyAuth("X-B", "header"),
		"c": spec.APIKeyAuth("X-C", "header"), "u": spec.APIKeyAuth("X-U", "header")}}
	// the operation also declares a required query parameter: a request that is
	// wrong in that respect is still refused for its credentials first
	must := spec.Parameter{}
	must.Name, must.In, must.Type, must.Required = "must", "query", "string", true
	op := vOp{method: "GET", path: "/secure", id: "secureOp", success: 200, params: []spec.Parameter{must}}
	if global {
		d.security = reqs
	} else {
		op.security = reqs
	}
	d.ops = []vOp{op, {method: "GET", path: "/open", id: "openOp", success: 200, security: []map[string][]string{}}}
	return d
}

type c02Setup struct {
	ctx     *Context
	handler http.Handler
}

func c02Build(si int, global, withAuthorizer bool, ord [][]int) *c02Setup {
	d := c02Desc(si, global, ord)
	doc := vDoc(vSwagger(d))
	api := untyped.NewAPI(doc)
	for _, n := range []string{"a", "b", "c"} {
		api.RegisterAuth(n, c02Auth(n))
	}
	if withAuthorizer {
		api.RegisterAuthorizer(runtime.AuthorizerFunc(func(r *http.Request, pr interface{}) error {
			c02S.authzCalls++
			c02S.authzPrinc = pr
			switch c02S.authz {
			case 1:
				return errors.New(418, "authorizer says teapot")
			case 2:
				return stderrors.New("authorizer says no")
			}
			return nil
		}))
	}
	api.RegisterOperation("GET", "/secure", runtime.OperationHandlerFunc(func(params interface{}) (interface{}, error) {
		c02S.handlerRan++
		return "ok", nil
	}))
	api.RegisterOperation("GET", "/open", runtime.OperationHandlerFunc(func(params interface{}) (interface{}, error) {
		c02S.handlerRan++
		return "ok", nil
	}))
	api.ServeError = func(rw http.ResponseWriter, r *http.Request, err error) {
		vRec.servedErr = err
		vRec.errCount++
	}
	ctx := NewContext(doc, api, nil)
	h := ctx.RoutesHandler(nil)
	return &c02Setup{ctx: ctx, handler: h}
}

// c02Verdict is what the requirement structure prescribes for one evaluation
// order of the schemes inside each alternative.
type c02Verdict struct {
	admitted, anonymous, anyReject bool
	princ                          interface{}
	scopes                         []string
	rejecters                      []string
}

// c02Oracle evaluates the requirement structure declaratively: OR over the
// alternatives in their listed order, AND over the schemes of an alternative in
// the evaluation order ord[alternative] (the first scheme that does not apply or
// rejects ends the alternative: later schemes are not consulted).
func c02Oracle(si int, ord [][]int) (v c02Verdict) {
	st := c02Structs[si]
	hasAnon := false
	for ai, alt := range st {
		if len(alt) == 0 {
			hasAnon = true
			continue
		}
		if v.admitted {
			break // later alternatives are not consulted
		}
		ok := true
		var last interface{}
		for _, k := range ord[ai] {
			rq := alt[k]
			if rq.name == "u" {
				ok = false // no registered authenticator: cannot find credentials
				break
			}
			switch c02S.outcome[rq.name] {
			case c02NotApplicable:
				ok = false
			case c02Reject:
				ok = false
				v.anyReject = true
				v.rejecters = append(v.rejecters, rq.name)
			case c02Accept:
				last = "principal-" + rq.name
			case c02AcceptNil:
				last = nil
			}
			if !ok {
				break
			}
		}
		if ok && last != nil {
			v.admitted = true
			v.princ = last
			seen := map[string]bool{}
			for _, rq := range alt {
				for _, s := range rq.scopes {
					if !seen[s] {
						seen[s] = true
						v.scopes = append(v.scopes, s)
					}
				}
			}
		}
	}
	if !v.admitted && hasAnon && !v.anyReject {
		v.admitted, v.anonymous = true, true
	}
	return
}

// The order in which the schemes of an alternative are consulted is a map
// iteration order that the code under test does not fix and that the harness
// cannot observe from outside (natively it is random per built router). What is
// observed therefore has to be what the structure prescribes for SOME evaluation
// order of every alternative: c02Pick returns the verdict of the first order
// assignment whose judgement accepts the observation; when none does, the verdict
// of the drawn order is returned and the labelled assertions report against it.
func c02Pick(si int, drawn [][]int, judge func(v c02Verdict, check func(string, bool), reach func(string))) c02Verdict {
	for _, ord := range c02Orders(si) {
		v := c02Oracle(si, ord)
		ok := true
		judge(v, func(_ string, cond bool) {
			if !cond {
				ok = false
			}
		}, func(string) {})
		if ok {
			return v
		}
	}
	return c02Oracle(si, drawn)
}

// c02RejectionsAccounted: the schemes that were consulted and rejected the
// credentials presented (an observation: the scripted authenticators log their
// calls) are exactly the rejections of the evaluation the verdict stands for. A
// request on which a consulted scheme rejected credentials is thus never judged
// by an evaluation order in which that scheme would not have been asked.
func c02RejectionsAccounted(v c02Verdict) bool {
	seen := map[string]bool{}
	for _, n := range c02S.calls {
		if c02S.outcome[n] == c02Reject {
			seen[n] = true
		}
	}
	for _, n := range v.rejecters {
		if !seen[n] {
			return false
		}
		delete(seen, n)
	}
	return len(seen) == 0
}

func c02Key(si, oi int, global, withAuthz bool) string {
	key := "c02-" + string(rune('a'+si)) + string(rune('0'+oi))
	if global {
		key += "g"
	}
	if withAuthz {
		key += "z"
	}
	return key
}

// VerifC02Security drives the real untyped stack (router → secure API →
// binder → handler) with scripted authenticators and authorizer.
func VerifC02Security() {
	si := zv.Choose("structure", zv.Param("structs", len(c02Structs)))
	orders := c02Orders(si)
	oi := zv.Choose("scheme-order", len(orders))
	global := zv.Choose("global", 2) == 1
	withAuthz := zv.Choose("authorizer", 2) == 1
	su := zv.Cached(c02Key(si, oi, global, withAuthz), func() interface{} { return c02Build(si, global, withAuthz, orders[oi]) }).(*c02Setup)
	vRec = &vRecorder{}
	c02S = &c02Script{outcome: map[string]int{}, scopesSeen: map[string][]string{}}
	for _, n := range []string{"a", "b", "c"} {
		c02S.outcome[n] = zv.Choose("outcome-"+n, 4)
	}
	if withAuthz {
		c02S.authz = zv.Choose("authz", 3)
	}
	otherwiseValid := zv.Choose("request-otherwise-valid", 2) == 1
	r := &http.Request{Method: "GET", Header: http.Header{}, URL: &url.URL{Path: "/secure"}}
	if otherwiseValid {
		r.URL.RawQuery = "must=1"
	}
	rw := vNewWriter()
	su.handler.ServeHTTP(rw, r)

	judge := func(v c02Verdict, check func(string, bool), reach func(string)) {
		check("observed-rejections-are-those-of-the-evaluation", c02RejectionsAccounted(v))
		authzDenied := v.admitted && withAuthz && c02S.authz != 0
		if v.admitted && !authzDenied && !otherwiseValid {
			// admitted, but the request is wrong otherwise: now that is what is reported
			reach("admitted-but-invalid")
			check("handler-does-not-run-on-an-invalid-request", c02S.handlerRan == 0)
			ce, is422 := vRec.servedErr.(*errors.CompositeError)
			check("binding-error-reported-after-admission", vRec.errCount == 1 && is422 && ce.Code() == 422)
			return
		}
		if !(v.admitted && !authzDenied) {
			// refused: whatever else is wrong with the request, the refusal is the security one
			_, is422 := vRec.servedErr.(*errors.CompositeError)
			check("refusal-precedes-parameter-binding", !is422)
		}
		if v.admitted && !authzDenied {
			reach("admitted")
			check("handler-runs-when-an-alternative-is-satisfied", c02S.handlerRan == 1)
			check("no-error-response-when-admitted", vRec.errCount == 0)
			if withAuthz {
				check("authorizer-consulted-once", c02S.authzCalls == 1)
				if !v.anonymous {
					check("authorizer-sees-the-alternatives-principal", c02S.authzPrinc == v.princ)
				}
			}
			return
		}
		reach("refused")
		check("handler-does-not-run-when-refused", c02S.handlerRan == 0)
		check("error-responder-called-once", vRec.errCount == 1)
		e, isAPIErr := vRec.servedErr.(errors.Error)
		check("error-has-a-status", isAPIErr)
		if isAPIErr {
			switch {
			case authzDenied && c02S.authz == 1:
				reach("authz-own-status")
				check("authorizer-error-kept", e.Code() == 418)
			case authzDenied:
				reach("authz-403")
				check("authorizer-plain-error-is-403", e.Code() == http.StatusForbidden)
			case v.anyReject:
				reach("rejected")
				mine := false
				for _, n := range v.rejecters {
					if e == errC02[n] {
						mine = true
					}
				}
				check("rejecting-scheme-error", mine)
			default:
				reach("401")
				check("401-when-no-alternative-applied", e.Code() == http.StatusUnauthorized)
			}
		}
	}
	judge(c02Pick(si, orders[oi], judge), func(l string, c bool) { zv.Assert(l, c) }, func(l string) { zv.Reach(l) })
}

// VerifC02Authorize: what a handler can read (principal, scopes) comes from the
// satisfied alternative.
func VerifC02Authorize() {
	si := zv.Choose("structure", zv.Param("structs", len(c02Structs)))
	orders := c02Orders(si)
	oi := zv.Choose("scheme-order", len(orders))
	su := zv.Cached(c02Key(si, oi, false, false), func() interface{} { return c02Build(si, false, false, orders[oi]) }).(*c02Setup)
	vRec = &vRecorder{}
	c02S = &c02Script{outcome: map[string]int{}, scopesSeen: map[string][]string{}}
	for _, n := range []string{"a", "b", "c"} {
		c02S.outcome[n] = zv.Choose("outcome-"+n, 4)
	}
	r := &http.Request{Method: "GET", Header: http.Header{}, URL: &url.URL{Path: "/secure", RawQuery: "must=1"}}
	route, r2, ok := su.ctx.RouteInfo(r)
	zv.Assert("route-found", ok && route != nil)
	if !ok {
		return
	}
	pr, r3, err := su.ctx.Authorize(r2, route)
	judge := func(v c02Verdict, check func(string, bool), reach func(string)) {
		check("observed-rejections-are-those-of-the-evaluation", c02RejectionsAccounted(v))
		if !v.admitted {
			reach("refused")
			check("authorize-fails", err != nil)
			check("no-principal-on-refusal", pr == nil)
			return
		}
		reach("admitted")
		check("authorize-succeeds", err == nil && r3 != nil)
		if err != nil || r3 == nil {
			return
		}
		if v.anonymous {
			check("anonymous-has-no-principal", pr == nil && SecurityPrincipalFrom(r3) == nil)
			return
		}
		check("principal-returned", pr == v.princ)
		check("principal-readable-by-handler", SecurityPrincipalFrom(r3) == v.princ)
		got := SecurityScopesFrom(r3)
		check("scopes-count", len(got) == len(v.scopes))
		for k := range v.scopes {
			if k < len(got) {
				check("scopes-of-the-satisfied-alternative", got[k] == v.scopes[k])
			}
		}
		// required scopes handed to each consulted authenticator are its own
		for _, alt := range c02Structs[si] {
			for _, rq := range alt {
				if seen, ok := c02S.scopesSeen[rq.name]; ok {
					check("scheme-sees-its-required-scopes", len(seen) == len(rq.scopes))
				}
			}
		}
	}
	judge(c02Pick(si, orders[oi], judge), func(l string, c bool) { zv.Assert(l, c) }, func(l string) { zv.Reach(l) })
}
