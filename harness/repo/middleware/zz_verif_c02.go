//go:build verif

package middleware

// C02 — security requirements are an OR of ANDs; nothing runs unless one is satisfied.

import (
	stderrors "errors"
	"net/http"
	"net/url"

	"github.com/go-openapi/errors"
	"github.com/go-openapi/runtime"
	"github.com/go-openapi/runtime/middleware/untyped"
	"github.com/go-openapi/runtime/security"
	"github.com/go-openapi/spec"

	zv "github.com/go-openapi/runtime/internal/zzverif"
)

// requirement structures: ordered alternatives, each a list of scheme names with scopes.
// scheme "u" is declared in the description but has no registered authenticator.
type c02Req struct {
	name   string
	scopes []string
}

var c02Structs = [][][]c02Req{
	{{{"a", nil}}},
	{{{"a", nil}}, {{"b", nil}}},
	{{{"a", nil}, {"b", nil}}},
	{{{"a", nil}, {"b", nil}}, {{"c", nil}}},
	{{{"a", nil}}, {}},
	{{}, {{"a", nil}}},
	{{{"a", []string{"r", "w"}}}, {{"b", []string{"r"}}}},
	{{{"b", nil}, {"a", nil}}, {}},
	{{{"a", nil}, {"b", nil}, {"c", nil}}},
	{{{"a", nil}, {"u", nil}}},
	{{{"u", nil}, {"a", nil}}, {{"b", nil}}},
	{{{"u", nil}}},
}

const (
	c02NotApplicable = iota
	c02Accept
	c02AcceptNil
	c02Reject
)

// scripted per-path outcomes, reached through a package-level variable so that
// the API built once stays immutable.
type c02Script struct {
	outcome    map[string]int
	calls      []string
	scopesSeen map[string][]string
	authz      int // 0 accept, 1 deny with errors.Error(418), 2 deny with a plain error
	authzCalls int
	authzPrinc interface{}
	handlerRan int
	handlerPr  interface{}
	handlerSc  []string
}

var c02S *c02Script

var errC02 = map[string]error{
	"a": errors.New(401, "a rejects"),
	"b": errors.New(401, "b rejects"),
	"c": errors.New(401, "c rejects"),
}

func c02Auth(name string) runtime.Authenticator {
	return runtime.AuthenticatorFunc(func(params interface{}) (bool, interface{}, error) {
		c02S.calls = append(c02S.calls, name)
		if sr, ok := params.(*security.ScopedAuthRequest); ok {
			c02S.scopesSeen[name] = sr.RequiredScopes
		}
		switch c02S.outcome[name] {
		case c02Accept:
			return true, "principal-" + name, nil
		case c02AcceptNil:
			return true, nil, nil
		case c02Reject:
			return true, nil, errC02[name]
		}
		return false, nil, nil
	})
}

func c02Desc(si int, global bool) vAPIDesc {
	st := c02Structs[si]
	var reqs []map[string][]string
	for _, alt := range st {
		m := map[string][]string{}
		for _, r := range alt {
			sc := r.scopes
			if sc == nil {
				sc = []string{}
			}
			m[r.name] = sc
		}
		reqs = append(reqs, m)
	}
	d := vAPIDesc{basePath: "/", secDefs: map[string]*spec.SecurityScheme{
		"a": spec.APIKeyAuth("X-A", "header"), "b": spec.APIKeyAuth("X-B", "header"),
		"c": spec.APIKeyAuth("X-C", "header"), "u": spec.APIKeyAuth("X-U", "header")}}
	// the operation also declares a required query parameter: a request that is
	// wrong in that respect is still refused for its credentials first
	must := spec.Parameter{}
	must.Name, must.In, must.Type, must.Required = "must", "query", "string", true
	op := vOp{method: "GET", path: "/secure", id: "secureOp", success: 200, params: []spec.Parameter{must}}
	if global {
		d.security = reqs
	} else {
		op.security = reqs
	}
	d.ops = []vOp{op, {method: "GET", path: "/open", id: "openOp", success: 200, security: []map[string][]string{}}}
	return d
}

type c02Setup struct {
	ctx     *Context
	handler http.Handler
}

func c02Build(si int, global, withAuthorizer bool) *c02Setup {
	d := c02Desc(si, global)
	doc := vDoc(vSwagger(d))
	api := untyped.NewAPI(doc)
	for _, n := range []string{"a", "b", "c"} {
		api.RegisterAuth(n, c02Auth(n))
	}
	if withAuthorizer {
		api.RegisterAuthorizer(runtime.AuthorizerFunc(func(r *http.Request, pr interface{}) error {
			c02S.authzCalls++
			c02S.authzPrinc = pr
			switch c02S.authz {
			case 1:
				return errors.New(418, "authorizer says teapot")
			case 2:
				return stderrors.New("authorizer says no")
			}
			return nil
		}))
	}
	api.RegisterOperation("GET", "/secure", runtime.OperationHandlerFunc(func(params interface{}) (interface{}, error) {
		c02S.handlerRan++
		return "ok", nil
	}))
	api.RegisterOperation("GET", "/open", runtime.OperationHandlerFunc(func(params interface{}) (interface{}, error) {
		c02S.handlerRan++
		return "ok", nil
	}))
	api.ServeError = func(rw http.ResponseWriter, r *http.Request, err error) {
		vRec.servedErr = err
		vRec.errCount++
	}
	ctx := NewContext(doc, api, nil)
	h := ctx.RoutesHandler(nil)
	return &c02Setup{ctx: ctx, handler: h}
}

// VerifC02Security drives the real untyped stack (router → secure API →
// binder → handler) with scripted authenticators and authorizer.
func VerifC02Security() {
	si := zv.Choose("structure", zv.Param("structs", len(c02Structs)))
	global := zv.Choose("global", 2) == 1
	withAuthz := zv.Choose("authorizer", 2) == 1
	key := "c02-" + string(rune('a'+si))
	if global {
		key += "g"
	}
	if withAuthz {
		key += "z"
	}
	su := zv.Cached(key, func() interface{} { return c02Build(si, global, withAuthz) }).(*c02Setup)
	vRec = &vRecorder{}
	c02S = &c02Script{outcome: map[string]int{}, scopesSeen: map[string][]string{}}
	for _, n := range []string{"a", "b", "c"} {
		c02S.outcome[n] = zv.Choose("outcome-"+n, 4)
	}
	if withAuthz {
		c02S.authz = zv.Choose("authz", 3)
	}
	otherwiseValid := zv.Choose("request-otherwise-valid", 2) == 1
	r := &http.Request{Method: "GET", Header: http.Header{}, URL: &url.URL{Path: "/secure"}}
	if otherwiseValid {
		r.URL.RawQuery = "must=1"
	}
	rw := vNewWriter()
	su.handler.ServeHTTP(rw, r)

	admitted, anonymous, anyReject, princ, admitScopes := c02Oracle(si)
	authzDenied := admitted && withAuthz && c02S.authz != 0

	if admitted && !authzDenied && !otherwiseValid {
		// admitted, but the request is wrong otherwise: now that is what is reported
		zv.Reach("admitted-but-invalid")
		zv.Assert("handler-does-not-run-on-an-invalid-request", c02S.handlerRan == 0)
		ce, is422 := vRec.servedErr.(*errors.CompositeError)
		zv.Assert("binding-error-reported-after-admission", vRec.errCount == 1 && is422 && ce.Code() == 422)
		return
	}
	if !(admitted && !authzDenied) {
		// refused: whatever else is wrong with the request, the refusal is the security one
		_, is422 := vRec.servedErr.(*errors.CompositeError)
		zv.Assert("refusal-precedes-parameter-binding", !is422)
	}
	if admitted && !authzDenied {
		zv.Reach("admitted")
		zv.Assert("handler-runs-when-an-alternative-is-satisfied", c02S.handlerRan == 1)
		zv.Assert("no-error-response-when-admitted", vRec.errCount == 0)
		if withAuthz {
			zv.Assert("authorizer-consulted-once", c02S.authzCalls == 1)
			if !anonymous {
				zv.Assert("authorizer-sees-the-alternatives-principal", c02S.authzPrinc == princ)
			}
		}
	} else {
		zv.Reach("refused")
		zv.Assert("handler-does-not-run-when-refused", c02S.handlerRan == 0)
		zv.Assert("error-responder-called-once", vRec.errCount == 1)
		e, isAPIErr := vRec.servedErr.(errors.Error)
		zv.Assert("error-has-a-status", isAPIErr)
		if isAPIErr {
			switch {
			case authzDenied && c02S.authz == 1:
				zv.Reach("authz-own-status")
				zv.Assert("authorizer-error-kept", e.Code() == 418)
			case authzDenied:
				zv.Reach("authz-403")
				zv.Assert("authorizer-plain-error-is-403", e.Code() == http.StatusForbidden)
			case anyReject:
				zv.Reach("rejected")
				zv.Assert("rejecting-scheme-error", e == errC02["a"] || e == errC02["b"] || e == errC02["c"])
			default:
				zv.Reach("401")
				zv.Assert("401-when-no-alternative-applied", e.Code() == http.StatusUnauthorized)
			}
		}
	}
	_ = admitScopes
}


// c02Oracle evaluates the requirement structure declaratively.
func c02Oracle(si int) (admitted, anonymous, anyReject bool, princ interface{}, admitScopes []string) {
	// ---- oracle: OR of ANDs ----
	st := c02Structs[si]
	hasAnon := false
	for _, alt := range st {
		if len(alt) == 0 {
			hasAnon = true
			continue
		}
		if admitted {
			break // later alternatives are not consulted
		}
		ok := true
		var last interface{}
		for _, rq := range alt {
			if rq.name == "u" {
				ok = false // no registered authenticator: cannot find credentials
				break
			}
			switch c02S.outcome[rq.name] {
			case c02NotApplicable:
				ok = false
			case c02Reject:
				ok = false
				anyReject = true
			case c02Accept:
				last = "principal-" + rq.name
			case c02AcceptNil:
				last = nil
			}
			if !ok {
				break
			}
		}
		if ok && last != nil {
			admitted = true
			princ = last
			seen := map[string]bool{}
			for _, rq := range alt {
				for _, s := range rq.scopes {
					if !seen[s] {
						seen[s] = true
						admitScopes = append(admitScopes, s)
					}
				}
			}
		}
	}
	if !admitted && hasAnon && !anyReject {
		admitted, anonymous = true, true
	}
	return
}

// VerifC02Authorize: what a handler can read (principal, scopes) comes from the
// satisfied alternative.
func VerifC02Authorize() {
	si := zv.Choose("structure", zv.Param("structs", len(c02Structs)))
	su := zv.Cached("c02-"+string(rune('a'+si)), func() interface{} { return c02Build(si, false, false) }).(*c02Setup)
	vRec = &vRecorder{}
	c02S = &c02Script{outcome: map[string]int{}, scopesSeen: map[string][]string{}}
	for _, n := range []string{"a", "b", "c"} {
		c02S.outcome[n] = zv.Choose("outcome-"+n, 4)
	}
	r := &http.Request{Method: "GET", Header: http.Header{}, URL: &url.URL{Path: "/secure", RawQuery: "must=1"}}
	route, r2, ok := su.ctx.RouteInfo(r)
	zv.Assert("route-found", ok && route != nil)
	if !ok {
		return
	}
	pr, r3, err := su.ctx.Authorize(r2, route)
	admitted, anonymous, _, princ, scopes := c02Oracle(si)
	if admitted {
		zv.Reach("admitted")
		zv.Assert("authorize-succeeds", err == nil && r3 != nil)
		if err != nil || r3 == nil {
			return
		}
		if anonymous {
			zv.Assert("anonymous-has-no-principal", pr == nil && SecurityPrincipalFrom(r3) == nil)
			return
		}
		zv.Assert("principal-returned", pr == princ)
		zv.Assert("principal-readable-by-handler", SecurityPrincipalFrom(r3) == princ)
		got := SecurityScopesFrom(r3)
		zv.Assert("scopes-count", len(got) == len(scopes))
		for k := range scopes {
			if k < len(got) {
				zv.Assert("scopes-of-the-satisfied-alternative", got[k] == scopes[k])
			}
		}
		// required scopes handed to each consulted authenticator are its own
		for _, alt := range c02Structs[si] {
			for _, rq := range alt {
				if seen, ok := c02S.scopesSeen[rq.name]; ok {
					zv.Assert("scheme-sees-its-required-scopes", len(seen) == len(rq.scopes))
				}
			}
		}
	} else {
		zv.Reach("refused")
		zv.Assert("authorize-fails", err != nil)
		zv.Assert("no-principal-on-refusal", pr == nil)
	}
}
