//go:build verif

package middleware

// C03 — declared non-body parameters are bound to exactly the value their text
// denotes, or the request is refused with a 422 naming the parameter.

import (
	"io"
	"net/http"
	"net/url"
	"reflect"

	"github.com/go-openapi/errors"
	"github.com/go-openapi/runtime"
	"github.com/go-openapi/runtime/middleware/untyped"
	"github.com/go-openapi/spec"
	"github.com/go-openapi/strfmt"
	"github.com/go-openapi/validate"

	zv "github.com/go-openapi/runtime/internal/zzverif"
)

// ---- declarations ----

type c03Kind struct {
	typ, format string
	bits        int // integer width; 0 for the other kinds
}

const (
	c03Int8 = iota
	c03Int16
	c03Int32
	c03Int64
	c03IntNone
	c03Bool
	c03String
	c03Text // string with a registered format (TextUnmarshaler)
	c03Float
	c03Double
	c03NumberNone
)

var c03Kinds = []c03Kind{
	{"integer", "int8", 8}, {"integer", "int16", 16}, {"integer", "int32", 32}, {"integer", "int64", 64}, {"integer", "", 64},
	{"boolean", "", 0}, {"string", "", 0}, {"string", "vtext", 0},
	{"number", "float", 0}, {"number", "double", 0}, {"number", "", 0},
}

var c03Ins = []string{"query", "header", "path", "formData"}

// c03VText is the Go type registered for the string format "vtext".
type c03VText string

func (t *c03VText) UnmarshalText(b []byte) error {
	for _, c := range b {
		if c == '!' {
			return errors.New(422, "vtext: bang")
		}
	}
	*t = c03VText(b)
	return nil
}

// c03Registry: a strfmt.Registry knowing the single format "vtext".
// (the embedded nil interface supplies the methods the binder never calls)
type c03Registry struct{ strfmt.Registry }

func (c03Registry) GetType(name string) (reflect.Type, bool) {
	if name == "vtext" {
		return reflect.TypeOf(c03VText("")), true
	}
	return nil, false
}
func (c03Registry) ContainsName(name string) bool              { return name == "vtext" }
func (c03Registry) Validates(name, data string) bool           { return true }

// ---- oracle helpers ----

// c03IntDenote: s matches [+-]?[0-9]+ and its value lies in the signed range of
// the given width; v is that value.
func c03IntDenote(s string, bits int) (ok bool, v int64) {
	i := 0
	neg := false
	if len(s) > 0 && (s[0] == '+' || s[0] == '-') {
		neg = s[0] == '-'
		i = 1
	}
	if i == len(s) {
		return false, 0
	}
	var acc uint64
	over := false
	for ; i < len(s); i++ {
		c := s[i]
		if c < '0' || c > '9' {
			return false, 0
		}
		if acc > 922337203685477580 {
			over = true
		} else {
			acc = acc*10 + uint64(c-'0')
		}
	}
	if over {
		return false, 0
	}
	lim := uint64(1) << uint(bits-1)
	if neg {
		if acc > lim {
			return false, 0
		}
		return true, -int64(acc)
	}
	if acc > lim-1 {
		return false, 0
	}
	return true, int64(acc)
}

var c03True = []string{"true", "1", "yes", "ok", "y", "on", "selected", "checked", "t", "enabled"}

func c03BoolDenote(s string) bool {
	b := []byte(s)
	for i, c := range b {
		if c >= 'A' && c <= 'Z' {
			b[i] = c + 32
		}
	}
	l := string(b)
	for _, t := range c03True {
		if l == t {
			return true
		}
	}
	return false
}

func c03ASCII(s string) bool {
	ok := true
	for i := 0; i < len(s); i++ {
		ok = zv.And(ok, s[i] < 0x80)
	}
	return ok
}

// bytes that survive the query/urlencoded-form parser unchanged
func c03QuerySafe(s string) bool {
	ok := true
	for i := 0; i < len(s); i++ {
		c := s[i]
		ok = zv.And(ok, c != '&' && c != ';' && c != '=' && c != '%' && c != '+' && c != '#')
	}
	return ok
}

// ---- request construction ----

type c03Body struct {
	data []byte
	pos  int
}

func (b *c03Body) Read(p []byte) (int, error) {
	if b.pos >= len(b.data) {
		return 0, io.EOF
	}
	n := copy(p, b.data[b.pos:])
	b.pos += n
	return n, nil
}
func (b *c03Body) Close() error { return nil }

// c03Request places the given occurrences of the parameter in its location.
// direct: form values are preset in PostForm/Form (no text restrictions);
// otherwise they travel through the real urlencoded parser.
// decoy: a value under the same name is also present in every other location.
func c03Request(in, name string, vals []string, direct, decoy bool) (*http.Request, RouteParams) {
	r := &http.Request{Method: "POST", Header: http.Header{}, URL: &url.URL{Path: "/p"}}
	var rp RouteParams
	if decoy {
		if in != "query" {
			r.URL.RawQuery = name + "=66"
		}
		if in != "header" {
			r.Header[http.CanonicalHeaderKey(name)] = []string{"66"}
		}
		if in != "path" {
			rp = RouteParams{{Name: name, Value: "66"}}
		}
		if in != "formData" {
			r.PostForm = url.Values{name: {"66"}}
			r.Form = url.Values{name: {"66"}}
		}
	}
	switch in {
	case "query":
		q := ""
		for k, v := range vals {
			if k > 0 {
				q += "&"
			}
			q += name + "=" + v
		}
		r.URL.RawQuery = q
	case "header":
		if len(vals) > 0 {
			r.Header[http.CanonicalHeaderKey(name)] = vals
		}
	case "path":
		if len(vals) > 0 {
			rp = RouteParams{{Name: "other", Value: "zz"}, {Name: name, Value: vals[len(vals)-1]}}
		}
	case "formData":
		r.Header["Content-Type"] = []string{"application/x-www-form-urlencoded"}
		if direct {
			r.PostForm = url.Values{}
			r.Form = url.Values{}
			if len(vals) > 0 {
				r.PostForm[name] = vals
				r.Form[name] = vals
			}
			if decoy {
				// what ParseForm leaves behind: Form = body values, then query values
				r.Form[name] = append(append([]string{}, vals...), "66")
			}
		} else {
			q := ""
			for k, v := range vals {
				if k > 0 {
					q += "&"
				}
				q += name + "=" + v
			}
			r.Body = &c03Body{data: []byte(q)}
			r.ContentLength = int64(len(q))
		}
	}
	return r, rp
}

// c03Validator stands for the declared validations (go-openapi/validate is a
// dependency: it renders every number as text and re-parses it, which is not
// encodable). Its verdict is a nondeterministic input of the harness.
type c03Validator struct{ name, in string }

var c03FailValidation bool
var c03ValidatorCalls int

func (v c03Validator) Validate(data interface{}) *validate.Result {
	c03ValidatorCalls++
	if !c03FailValidation {
		return nil
	}
	res := new(validate.Result)
	res.AddErrors(errors.EnumFail(v.name, v.in, nil, nil))
	return res
}

func c03StubValidators(b *UntypedRequestBinder) {
	for _, pb := range b.paramBinders {
		if pb.validator == nil {
			continue // the stub stands for the validator the binder built, it does not add one
		}
		pb.validator = c03Validator{name: pb.parameter.Name, in: pb.parameter.In}
	}
}

func c03Binder(p spec.Parameter) *UntypedRequestBinder {
	b := NewUntypedRequestBinder(map[string]spec.Parameter{p.Name: p}, nil, c03Registry{})
	c03StubValidators(b)
	return b
}

// c03Refused: the error is the 422 composite and names the parameter.
func c03Refused(err error, name, in string) bool {
	ce, ok := err.(*errors.CompositeError)
	if !ok || ce.Code() != http.StatusUnprocessableEntity || len(ce.Errors) == 0 {
		return false
	}
	for _, e := range ce.Errors {
		switch ve := e.(type) {
		case *errors.Validation:
			if ve.Name == name && ve.In == in {
				return true
			}
		case *errors.ParseError:
			if ve.Name == name {
				return true
			}
		case *errors.CompositeError:
			for _, e2 := range ve.Errors {
				if v2, ok := e2.(*errors.Validation); ok && v2.Name == name && v2.In == in {
					return true
				}
			}
		}
	}
	return false
}

func c03TextLen(k int) int {
	switch k {
	case c03Int8:
		return zv.Param("len8", 5)
	case c03Int16:
		return zv.Param("len16", 7)
	case c03Int32:
		return zv.Param("len32", 12)
	case c03Int64, c03IntNone:
		return zv.Param("len64", 21)
	case c03Bool:
		return zv.Param("lenbool", 5)
	}
	return zv.Param("lenstr", 3)
}

var c03FloatTexts = []string{"1.5", "-0.25", "1e3", "abc", "1e400", "0x10", "1.5.2", "Inf", " 1"}
var c03FloatVals = []float64{1.5, -0.25, 1000, 0, 0, 0, 0, 0, 0}
var c03FloatOK64 = []bool{true, true, true, false, false, false, false, true, false}

// c03Product: explore the whole declaration lattice (with texts capped at
// prodlen bytes) instead of the two slices.
var c03Product bool

// VerifC03ScalarProduct / VerifC03ArrayProduct: the full product of the
// declaration lattice with short texts (thorough tier only).
func VerifC03ScalarProduct() {
	if zv.Param("skip", 0) == 1 {
		return
	}
	c03Product = true
	c03Scalar()
}

func VerifC03ArrayProduct() {
	if zv.Param("skip", 0) == 1 {
		return
	}
	c03Product = true
	c03Array()
}

// VerifC03Scalar: one scalar parameter declaration, one request.
func VerifC03Scalar() {
	c03Product = false
	c03Scalar()
}

func c03Scalar() {
	// The quick tier explores two slices of the declaration lattice (every
	// kind at one location; every location for two kinds); the thorough tier
	// (full=1) explores the whole product.
	full := zv.Param("full", 0) == 1 || c03Product
	slice := 0
	if !full {
		slice = zv.Choose("slice", 2)
	}
	var ki int
	if !full && slice == 1 {
		ki = []int{c03Int8, c03String}[zv.Choose("kind", 2)]
	} else {
		ki = zv.Choose("kind", zv.Param("kinds", len(c03Kinds)))
	}
	kind := c03Kinds[ki]
	in := "path"
	if full || slice == 1 {
		in = c03Ins[zv.Choose("in", len(c03Ins))]
	}
	required, hasDef, allowEmpty := c03Flags(full)
	name := "val"
	if in == "header" {
		name = []string{"X-Val", "x-val"}[zv.Choose("header-name-case", 2)]
	}
	p := spec.Parameter{}
	p.Name, p.In, p.Type, p.Format = name, in, kind.typ, kind.format
	p.Required, p.AllowEmptyValue = required, allowEmpty
	var defInt int64 = 7
	if hasDef {
		switch {
		case kind.typ == "integer":
			p.Default = float64(defInt) // what a JSON document yields
		case kind.typ == "boolean":
			p.Default = true
		case kind.typ == "number":
			p.Default = 2.5
		case ki == c03Text:
			p.Default = c03VText("dflt")
		default:
			p.Default = "dflt"
		}
	}

	// occurrences: absent, once, twice (the last one is the text under test)
	maxOcc := 3
	if in == "path" {
		maxOcc = 2
	}
	occ := zv.Choose("occurrences", maxOcc)
	direct := true
	if in == "formData" {
		direct = zv.Choose("form-direct", 2) == 1
	}
	var text string
	fi := -1
	if occ > 0 {
		if kind.typ == "number" {
			fi = zv.Choose("float-text", len(c03FloatTexts)+1) - 1
			if fi >= 0 {
				text = c03FloatTexts[fi]
			}
		} else {
			n := c03TextLen(ki)
			if !full && slice == 1 && n > 2 {
				n = 2
			}
			if pl := zv.Param("prodlen", 3); c03Product && n > pl {
				n = pl
			}
			text = zv.String("text", n)
		}
	}
	if in == "query" || (in == "formData" && !direct) {
		zv.Assume(c03QuerySafe(text))
	}
	if ki == c03Bool {
		zv.Assume(c03ASCII(text))
	}
	var vals []string
	switch occ {
	case 1:
		vals = []string{text}
	case 2:
		vals = []string{"9", text}
	}
	decoy := (full || slice == 1) && zv.Choose("same-name-in-other-locations", 2) == 1
	r, rp := c03Request(in, name, vals, direct, decoy)
	c03FailValidation = zv.Choose("declared-validation-fails", 2) == 1
	if c03FailValidation {
		p.Enum = []interface{}{"never-sent"} // the declaration does declare a validation
	}
	binder := c03Binder(p)
	c03ValidatorCalls = 0
	m := map[string]interface{}{}
	err := binder.Bind(r, rp, nil, &m)

	// ---- oracle ----
	hasKey := occ > 0
	if (!hasKey || (text == "" && !allowEmpty)) && required && !hasDef {
		zv.Reach("required-missing")
		zv.Assert("missing-required-is-422-naming-the-parameter", c03Refused(err, name, in))
		return
	}
	if c03FailValidation {
		// whatever the text, the request is refused: by the failed validation
		// if the text was bound, by the binder otherwise
		zv.Reach("validation-fails")
		zv.Assert("failed-validation-is-422-naming-the-parameter", c03Refused(err, name, in))
		return
	}
	got, present := m[name]
	if text == "" {
		zv.Reach("absent-or-empty")
		zv.Assert("absent-or-empty-binds", err == nil && present)
		if err != nil || !present {
			return
		}
		switch {
		case kind.typ == "integer":
			want := int64(0)
			if hasDef {
				want = defInt
			}
			zv.Assert("default-or-zero-integer", c03IntIs(got, kind.bits, want))
		case kind.typ == "boolean":
			b, ok := got.(bool)
			zv.Assert("default-or-zero-boolean", ok && b == hasDef)
		case ki == c03Float:
			f, ok := got.(float32)
			zv.Assert("default-or-zero-float", ok && ((hasDef && f == 2.5) || (!hasDef && f == 0)))
		case kind.typ == "number":
			f, ok := got.(float64)
			zv.Assert("default-or-zero-double", ok && ((hasDef && f == 2.5) || (!hasDef && f == 0)))
		case ki == c03Text:
			s, ok := got.(c03VText)
			zv.Assert("default-or-zero-formatted-string", ok && ((hasDef && s == "dflt") || (!hasDef && s == "")))
		default:
			s, ok := got.(string)
			zv.Assert("default-or-zero-string", ok && ((hasDef && s == "dflt") || (!hasDef && s == "")))
		}
		return
	}
	switch {
	case kind.typ == "integer":
		ok, want := c03IntDenote(text, kind.bits)
		if ok {
			zv.Reach("integer-bound")
			zv.Assert("valid-integer-binds", err == nil && present)
			if err == nil && present {
				zv.Assert("integer-value-and-type", c03IntIs(got, kind.bits, want))
			}
		} else {
			zv.Reach("integer-refused")
			zv.Assert("invalid-or-out-of-range-integer-is-422", c03Refused(err, name, in))
		}
	case kind.typ == "boolean":
		zv.Reach("boolean-bound")
		b, ok := got.(bool)
		zv.Assert("boolean-binds", err == nil && present && ok)
		if ok {
			zv.Assert("boolean-value", b == c03BoolDenote(text))
		}
	case kind.typ == "number":
		if c03FloatOK64[fi] && !(ki == c03Float && text == "1e400") {
			zv.Reach("number-bound")
			zv.Assert("valid-number-binds", err == nil && present)
			if err == nil && present {
				if ki == c03Float {
					f, ok := got.(float32)
					zv.Assert("float-value-and-type", ok && (text == "Inf" || f == float32(c03FloatVals[fi])))
				} else {
					f, ok := got.(float64)
					zv.Assert("double-value-and-type", ok && (text == "Inf" || f == c03FloatVals[fi]))
				}
			}
		} else {
			zv.Reach("number-refused")
			zv.Assert("invalid-number-is-422", c03Refused(err, name, in))
		}
	case ki == c03Text:
		bad := false
		for i := 0; i < len(text); i++ {
			bad = zv.Or(bad, text[i] == '!')
		}
		if bad {
			zv.Reach("format-refused")
			zv.Assert("text-rejected-by-its-format-is-422", c03Refused(err, name, in))
		} else {
			zv.Reach("format-bound")
			s, ok := got.(c03VText)
			zv.Assert("formatted-string-binds", err == nil && present && ok)
			if ok {
				zv.Assert("formatted-string-value", string(s) == text)
			}
		}
	default:
		zv.Reach("string-bound")
		s, ok := got.(string)
		zv.Assert("string-binds", err == nil && present && ok)
		if ok {
			zv.Assert("string-value-is-the-last-occurrence", s == text)
		}
	}
}

// c03Flags: required × default × allowEmptyValue. The quick tier leaves out the
// three combinations in which allowEmptyValue accompanies a default or a
// non-required parameter (the statement gives it no role there); thorough: all 8.
func c03Flags(full bool) (required, hasDef, allowEmpty bool) {
	if full {
		return zv.Choose("required", 2) == 1, zv.Choose("default", 2) == 1, zv.Choose("allowEmpty", 2) == 1
	}
	switch zv.Choose("required-default-allowEmpty", 5) {
	case 1:
		hasDef = true
	case 2:
		required = true
	case 3:
		required, allowEmpty = true, true
	case 4:
		required, hasDef = true, true
	}
	return
}

func c03IntIs(got interface{}, bits int, want int64) bool {
	switch x := got.(type) {
	case int8:
		return bits == 8 && int64(x) == want
	case int16:
		return bits == 16 && int64(x) == want
	case int32:
		return bits == 32 && int64(x) == want
	case int64:
		return bits == 64 && x == want
	}
	return false
}

// ---- arrays ----

var c03Formats = []string{"", "csv", "ssv", "tsv", "pipes", "multi"}
var c03Seps = []byte{',', ',', ' ', '\t', '|', 0}

func c03IsSpace(c byte) bool {
	return c == ' ' || c == '\t' || c == '\n' || c == '\v' || c == '\f' || c == '\r'
}

// c03Split: reference split — items separated by sep, surrounding white space
// removed, empty items dropped.
func c03Split(s string, sep byte) []string {
	var out []string
	start := 0
	for i := 0; i <= len(s); i++ {
		if i == len(s) || s[i] == sep {
			a, b := start, i
			for a < b && c03IsSpace(s[a]) {
				a++
			}
			for b > a && c03IsSpace(s[b-1]) {
				b--
			}
			if b > a {
				out = append(out, s[a:b])
			}
			start = i + 1
		}
	}
	return out
}

// VerifC03Array: one array parameter declaration, one request.
func VerifC03Array() {
	c03Product = false
	c03Array()
}

func c03Array() {
	// quick tier: two slices (every format at the path/query location; every
	// location for csv and multi with string items); thorough (full=1): product.
	full := zv.Param("full", 0) == 1 || c03Product
	slice := 0
	if !full {
		slice = zv.Choose("slice", 2)
	}
	var in string
	var fi int
	switch {
	case full:
		in = c03Ins[zv.Choose("in", len(c03Ins))]
		fi = zv.Choose("collectionFormat", len(c03Formats))
	case slice == 0:
		fi = zv.Choose("collectionFormat", len(c03Formats))
		in = "path"
		if c03Formats[fi] == "multi" {
			in = "query"
		}
	default:
		in = c03Ins[zv.Choose("in", len(c03Ins))]
		fi = []int{1, 5}[zv.Choose("collectionFormat", 2)]
	}
	cf := c03Formats[fi]
	if cf == "multi" && in != "query" && in != "formData" {
		return // not a declaration the description language allows
	}
	intItems := false
	if full || slice == 0 {
		intItems = zv.Choose("items", 2) == 1
	}
	required, hasDef, allowEmpty := c03Flags(full)
	name := "val"
	if in == "header" {
		name = "X-Val"
	}
	p := spec.Parameter{}
	p.Name, p.In, p.Type, p.CollectionFormat = name, in, "array", cf
	p.Required, p.AllowEmptyValue = required, allowEmpty
	p.Items = &spec.Items{}
	if intItems {
		p.Items.Type, p.Items.Format = "integer", "int32"
	} else {
		p.Items.Type = "string"
	}
	if hasDef {
		if intItems {
			p.Default = []interface{}{float64(4), float64(5)} // what a JSON document yields
		} else {
			p.Default = []interface{}{"d1", "d2"}
		}
	}
	maxOcc := 3
	if in == "path" {
		maxOcc = 2
	}
	occ := zv.Choose("occurrences", maxOcc)
	var text string
	if occ > 0 {
		n := zv.Param("lenarr", 4)
		if !full && slice == 1 && n > 2 {
			n = 2
		}
		if pl := zv.Param("prodlen", 2); c03Product && n > pl {
			n = pl
		}
		text = zv.String("text", n)
	}
	zv.Assume(c03ASCII(text))
	if cf == "multi" && occ > 0 && text == "" {
		return // whether an empty repeated item is an item or emptiness is not stated
	}
	direct := true
	if in == "formData" {
		direct = zv.Choose("form-direct", 2) == 1
	}
	if in == "query" || (in == "formData" && !direct) {
		zv.Assume(c03QuerySafe(text))
	}
	var vals []string
	switch occ {
	case 1:
		vals = []string{text}
	case 2:
		vals = []string{"8", text}
	}
	decoy := (full || slice == 1) && zv.Choose("same-name-in-other-locations", 2) == 1
	r, rp := c03Request(in, name, vals, direct, decoy)
	// a validation declared on the items only (enum), and its verdict
	itemValidationFails := zv.Choose("declared-item-validation-fails", 2) == 1
	if itemValidationFails {
		p.Items.Enum = []interface{}{"never-sent"}
	}
	binder := c03Binder(p)
	c03FailValidation = itemValidationFails
	m := map[string]interface{}{}
	err := binder.Bind(r, rp, nil, &m)

	// ---- oracle ----
	if itemValidationFails {
		zv.Reach("item-validation-fails")
		zv.Assert("failed-item-validation-is-422-naming-the-parameter", c03Refused(err, name, in))
		return
	}
	var items []string
	if cf == "multi" {
		items = vals
	} else if occ > 0 {
		items = c03Split(text, c03Seps[fi])
	}
	hasKey := occ > 0
	empty := len(items) == 0 || (len(items) == 1 && items[0] == "")
	if (!hasKey || (empty && !allowEmpty)) && required && !hasDef {
		zv.Reach("required-missing")
		zv.Assert("missing-required-array-is-422-naming-the-parameter", c03Refused(err, name, in))
		return
	}
	got, present := m[name]
	if len(items) == 0 {
		zv.Reach("absent-or-empty")
		zv.Assert("absent-or-empty-array-binds", err == nil && present)
		if err != nil || !present {
			return
		}
		if intItems {
			s, ok := got.([]int32)
			zv.Assert("default-or-empty-integer-array", ok && ((hasDef && len(s) == 2 && s[0] == 4 && s[1] == 5) || (!hasDef && len(s) == 0)))
		} else {
			s, ok := got.([]string)
			zv.Assert("default-or-empty-string-array", ok && ((hasDef && len(s) == 2 && s[0] == "d1" && s[1] == "d2") || (!hasDef && len(s) == 0)))
		}
		return
	}
	if intItems {
		allOK := true
		want := make([]int64, len(items))
		for k, it := range items {
			ok, v := c03IntDenote(it, 32)
			if !ok {
				allOK = false
				break
			}
			want[k] = v
		}
		if !allOK {
			zv.Reach("item-refused")
			zv.Assert("invalid-item-is-422", c03Refused(err, name, in))
			return
		}
		zv.Reach("integer-items-bound")
		s, ok := got.([]int32)
		zv.Assert("integer-array-binds", err == nil && present && ok && len(s) == len(items))
		if ok && len(s) == len(items) {
			for k := range s {
				zv.Assert("integer-item-value", int64(s[k]) == want[k])
			}
		}
		return
	}
	zv.Reach("string-items-bound")
	s, ok := got.([]string)
	zv.Assert("string-array-binds", err == nil && present && ok && len(s) == len(items))
	if ok && len(s) == len(items) {
		for k := range s {
			zv.Assert("string-item-is-the-split-text", s[k] == items[k])
		}
	}
}

// ---- through the whole untyped stack ----

type c03Served struct {
	handler http.Handler
}

var c03Params map[string]interface{}

func c03BuildStack() *c03Served {
	mk := func(name, in, typ, format string, required bool) spec.Parameter {
		p := spec.Parameter{}
		p.Name, p.In, p.Type, p.Format, p.Required = name, in, typ, format, required
		return p
	}
	lim := mk("limit", "query", "integer", "int32", false)
	tags := mk("tags", "query", "array", "", false)
	tags.Items = &spec.Items{}
	tags.Items.Type = "string"
	tags.CollectionFormat = "pipes"
	d := vAPIDesc{basePath: "/", ops: []vOp{{method: "GET", path: "/items/{id}", id: "getItem", success: 200,
		produces: []string{"application/json"},
		params: []spec.Parameter{
			mk("id", "path", "integer", "int16", true),
			lim,
			mk("X-Flag", "header", "boolean", "", true),
			tags,
		}}}}
	doc := vDoc(vSwagger(d))
	api := untyped.NewAPI(doc)
	api.RegisterProducer("application/json", runtime.ProducerFunc(func(w io.Writer, v interface{}) error { return nil }))
	api.RegisterOperation("GET", "/items/{id}", runtime.OperationHandlerFunc(func(params interface{}) (interface{}, error) {
		vRec.ranCount++
		c03Params, _ = params.(map[string]interface{})
		return "ok", nil
	}))
	api.ServeError = func(rw http.ResponseWriter, r *http.Request, err error) {
		vRec.servedErr = err
		vRec.errCount++
	}
	ctx := NewContext(doc, api, nil)
	h := ctx.RoutesHandler(nil)
	entry, _, found := ctx.router.(*defaultRouter).routers["GET"].Lookup("/items/1")
	if !found {
		panic("c03: route not built")
	}
	c03StubValidators(entry.(*routeEntry).Binder)
	return &c03Served{handler: h}
}

// VerifC03Serve: the handler of an operation with path/query/header parameters
// runs with exactly the denoted values, or not at all (422).
func VerifC03Serve() {
	su := zv.Cached("c03-stack", func() interface{} { return c03BuildStack() }).(*c03Served)
	vRec = &vRecorder{}
	c03Params = nil
	// one parameter text is symbolic at a time (sum instead of product of the
	// per-parameter path counts); focus 2 combines concrete valid/invalid texts
	focus := zv.Choose("focus", 3)
	id, limit, flag := "12", "", "true"
	hasLimit, hasFlag := false, true
	switch focus {
	case 0:
		id = zv.String("id", zv.Param("lenid", 3))
		zv.Assume(len(id) > 0)
		for i := 0; i < len(id); i++ {
			c := id[i]
			zv.Assume(c != '/' && c != '%' && c != '?' && c != '#' && c != '.' && c != ' ' && c < 0x7f && c > 0x20)
		}
		if zv.Choose("has-limit", 2) == 1 {
			hasLimit, limit = true, "7"
		}
	case 1:
		hasLimit = true
		limit = zv.String("limit", zv.Param("lenlimit", 3))
		zv.Assume(c03QuerySafe(limit))
	default:
		id = []string{"12", "x", "40000"}[zv.Choose("id", 3)]
		if zv.Choose("has-limit", 2) == 1 {
			hasLimit = true
			limit = []string{"5", "y", ""}[zv.Choose("limit", 3)]
		}
		hasFlag = zv.Choose("has-flag", 2) == 1
		if hasFlag {
			flag = []string{"true", "no", ""}[zv.Choose("flag", 3)]
		}
	}
	r := &http.Request{Method: "GET", Header: http.Header{}, URL: &url.URL{Path: "/items/" + id}}
	if hasLimit {
		r.URL.RawQuery = "limit=" + limit + "&tags=a|b"
	}
	if hasFlag {
		r.Header["X-Flag"] = []string{flag}
	}
	c03FailValidation = false
	rw := vNewWriter()
	su.handler.ServeHTTP(rw, r)

	idOK, idV := c03IntDenote(id, 16)
	limOK, limV := true, int64(0)
	if limit != "" {
		limOK, limV = c03IntDenote(limit, 32)
	}
	flagOK := hasFlag && flag != ""
	if idOK && limOK && flagOK {
		zv.Reach("served")
		zv.Assert("handler-runs-once-with-valid-parameters", vRec.ranCount == 1 && vRec.errCount == 0 && c03Params != nil)
		if c03Params == nil {
			return
		}
		zv.Assert("path-parameter-value", c03IntIs(c03Params["id"], 16, idV))
		zv.Assert("query-parameter-value", c03IntIs(c03Params["limit"], 32, limV))
		b, ok := c03Params["X-Flag"].(bool)
		zv.Assert("header-parameter-value", ok && b == (flag == "true"))
		if hasLimit {
			tg, ok := c03Params["tags"].([]string)
			zv.Assert("array-parameter-value", ok && len(tg) == 2 && tg[0] == "a" && tg[1] == "b")
		}
		return
	}
	zv.Reach("refused")
	zv.Assert("handler-does-not-run-on-invalid-parameters", vRec.ranCount == 0)
	zv.Assert("error-responder-called-once", vRec.errCount == 1)
	ce, ok := vRec.servedErr.(*errors.CompositeError)
	zv.Assert("refusal-is-422", ok && ce.Code() == http.StatusUnprocessableEntity)
	if !ok {
		return
	}
	named := func(n string) bool {
		for _, e := range ce.Errors {
			if ve, ok := e.(*errors.Validation); ok && ve.Name == n {
				return true
			}
			if ce2, ok := e.(*errors.CompositeError); ok {
				for _, e2 := range ce2.Errors {
					if ve, ok := e2.(*errors.Validation); ok && ve.Name == n {
						return true
					}
				}
			}
		}
		return false
	}
	if !idOK {
		zv.Assert("refusal-names-the-path-parameter", named("id"))
	}
	if !limOK {
		zv.Assert("refusal-names-the-query-parameter", named("limit"))
	}
	if !flagOK {
		zv.Assert("refusal-names-the-header-parameter", named("X-Flag"))
	}
}

// ---- sequences of declarations ----

type c03ItemKind struct {
	typ, format string
}

var c03ItemKinds = []c03ItemKind{{"integer", "int64"}, {"integer", "int32"}, {"integer", "int8"}, {"number", "float"}, {"number", "double"}, {"string", ""}}

func c03ArrayDecl(name string, k c03ItemKind) spec.Parameter {
	p := spec.Parameter{}
	p.Name, p.In, p.Type, p.CollectionFormat = name, "query", "array", "csv"
	p.Items = &spec.Items{}
	p.Items.Type, p.Items.Format = k.typ, k.format
	return p
}

func c03ItemsAre(got interface{}, k c03ItemKind, want []int64) bool {
	switch s := got.(type) {
	case []int64:
		return k.format == "int64" && len(s) == len(want) && (len(s) == 0 || s[len(s)-1] == want[len(want)-1])
	case []int32:
		return k.format == "int32" && len(s) == len(want) && (len(s) == 0 || int64(s[len(s)-1]) == want[len(want)-1])
	case []int8:
		return k.format == "int8" && len(s) == len(want) && (len(s) == 0 || int64(s[len(s)-1]) == want[len(want)-1])
	case []float32:
		return k.format == "float" && len(s) == len(want)
	case []float64:
		return k.format == "double" && len(s) == len(want)
	case []string:
		return k.typ == "string" && len(s) == len(want)
	}
	return false
}

// VerifC03Sequence: what one declaration is bound to does not depend on which
// other declarations were bound before it (in this process).
func VerifC03Sequence() {
	ka := c03ItemKinds[zv.Choose("first-items", len(c03ItemKinds))]
	kb := c03ItemKinds[zv.Choose("second-items", len(c03ItemKinds))]
	c03FailValidation = false
	d := byte('4')
	if kb.typ != "number" { // (number texts stay concrete: ParseFloat is not encoded symbolically)
		d = zv.Byte("digit")
		zv.Assume(d >= '0' && d <= '9')
	}
	texts := []string{"1,2", "3," + string([]byte{d})}
	wants := [][]int64{{1, 2}, {3, int64(d - '0')}}
	for step, k := range []c03ItemKind{ka, kb} {
		p := c03ArrayDecl("val", k)
		r := &http.Request{Method: "GET", Header: http.Header{}, URL: &url.URL{Path: "/p", RawQuery: "val=" + texts[step]}}
		binder := c03Binder(p)
		m := map[string]interface{}{}
		err := binder.Bind(r, nil, nil, &m)
		zv.Assert("sequence-binds", err == nil)
		if err != nil {
			return
		}
		zv.Assert("items-have-the-declared-type-whatever-was-bound-before", c03ItemsAre(m["val"], k, wants[step]))
	}
	zv.Reach("sequence-bound")
}
