//go:build verif

package middleware

// C06 — a body is decoded only by the consumer of an admitted media type, else 415.

import (
	"io"
	"mime"
	"net/http"
	"net/url"
	"strings"

	"github.com/go-openapi/errors"
	"github.com/go-openapi/runtime"
	"github.com/go-openapi/runtime/middleware/untyped"

	zv "github.com/go-openapi/runtime/internal/zzverif"
)

var c06Consumes = [][]string{
	{"application/json"},
	{"text/plain", "application/xml"},
	{"text/*"},
	{"*/*"},
	{},
	{"text/csv", "image/*"},
	{"text/plain; charset=utf-8", "application/xml"}, // an entry spelled with a parameter
}

var c06Registered = []string{"application/json", "text/plain", "application/xml", "text/csv", "image/png", "application/octet-stream"}

var c06Spellings = []string{"application/json", "Application/JSON", "text/plain", "text/plain; charset=utf-8", "text/csv", "image/png", "TEXT/Plain;q=1", "application/xml"}

type c06Body struct {
	n      int
	pos    int
	closed int
}

func (b *c06Body) Read(p []byte) (int, error) {
	if b.pos >= b.n || len(p) == 0 {
		if b.pos >= b.n {
			return 0, io.EOF
		}
		return 0, nil
	}
	p[0] = 'x'
	b.pos++
	return 1, nil
}
func (b *c06Body) Close() error { b.closed++; return nil }

type c06Binder struct{}

func (c06Binder) BindRequest(r *http.Request, route *MatchedRoute) error {
	vRec.bindCalls++
	return nil
}

func c06Build(ci int) *Context {
	d := vAPIDesc{basePath: "/", ops: []vOp{
		{method: "POST", path: "/items", id: "addItem", consumes: c06Consumes[ci], produces: []string{"application/json"}, success: 201},
		{method: "GET", path: "/items", id: "findItems", consumes: c06Consumes[ci], produces: []string{"application/json"}, success: 200}}}
	doc := vDoc(vSwagger(d))
	api := untyped.NewAPI(doc)
	for _, mt := range c06Registered {
		mt := mt
		api.RegisterConsumer(mt, runtime.ConsumerFunc(func(r io.Reader, data interface{}) error {
			vRec.consumed = append(vRec.consumed, mt)
			return nil
		}))
	}
	for _, m := range []string{"POST", "GET"} {
		api.RegisterOperation(m, "/items", runtime.OperationHandlerFunc(func(params interface{}) (interface{}, error) {
			vRec.ranCount++
			return "ok", nil
		}))
	}
	ctx := NewContext(doc, api, nil)
	ctx.router = DefaultRouter(ctx.spec, ctx.api, WithDefaultRouterLoggerFunc(ctx.debugLogf))
	return ctx
}

// c06Status: the status the error responder will answer with.
func c06Status(err error) int {
	for {
		ce, ok := err.(*errors.CompositeError)
		if !ok || len(ce.Errors) == 0 {
			break
		}
		err = ce.Errors[0]
	}
	if e, ok := err.(errors.Error); ok {
		return int(e.Code())
	}
	return 500
}

func c06Req(method, ct string, ctPresent bool, cl int64, clHdr bool, bodyLen int) *http.Request {
	r := &http.Request{Method: method, Header: http.Header{}, URL: &url.URL{Path: "/items"}, ContentLength: cl,
		Body: &c06Body{n: bodyLen}}
	if cl == 0 && !clHdr {
		// no declared length on the wire means chunked transfer
		r.TransferEncoding = []string{"chunked"}
		r.ContentLength = -1
	}
	if ctPresent {
		r.Header["Content-Type"] = []string{ct}
	}
	if clHdr {
		r.Header["Content-Length"] = []string{"0"}
	}
	return r
}

func c06Probe(c runtime.Consumer) string {
	if c == nil {
		return ""
	}
	before := len(vRec.consumed)
	_ = c.Consume(nil, nil)
	if len(vRec.consumed) > before {
		mt := vRec.consumed[len(vRec.consumed)-1]
		vRec.consumed = vRec.consumed[:before]
		return mt
	}
	return "?"
}

// VerifC06Gate: both binding entry points apply the same admission gate and pick
// the same consumer.
func VerifC06Gate() {
	ci := zv.Choose("consumes", zv.Param("lists", len(c06Consumes)))
	ctx := zv.Cached("c06-"+string(rune('0'+ci)), func() interface{} { return c06Build(ci) }).(*Context)
	vRec = &vRecorder{}

	ctPresent := true
	var ct string
	switch zv.Choose("ctform", 3) {
	case 0:
		ctPresent = false
	case 1:
		ct = c06Spellings[zv.Choose("spelling", len(c06Spellings))] + zv.String("suffix", zv.Param("suffix", 1))
	case 2:
		ct = zv.String("raw", zv.Param("raw", 2))
	}
	if zv.Param("ascii", 1) == 1 {
		for k := 0; k < len(ct); k++ {
			zv.Assume(ct[k] < 0x80)
		}
	}
	var cl int64
	clHdr := false
	bodyLen := 0
	switch zv.Choose("bodyform", 4) {
	case 0: // declared length
		cl, bodyLen = 3, 1
	case 1: // explicit Content-Length: 0
		clHdr = true
	case 2: // nothing declared, a byte is readable (chunked)
		bodyLen = 1
	case 3: // nothing declared, empty stream
	}
	hasBody := cl > 0 || (!clHdr && bodyLen > 0)

	// entry point of generated servers
	method := []string{"POST", "GET"}[zv.Choose("method", 2)]
	rA := c06Req(method, ct, ctPresent, cl, clHdr, bodyLen)
	routeA, rA2, ok := ctx.RouteInfo(rA)
	zv.Assert("route-found", ok)
	if !ok {
		return
	}
	errA := ctx.BindValidRequest(rA2, routeA, c06Binder{})
	bindA := vRec.bindCalls
	consA := c06Probe(routeA.Consumer)

	// reflective entry point
	rB := c06Req(method, ct, ctPresent, cl, clHdr, bodyLen)
	routeB, rB2, _ := ctx.RouteInfo(rB)
	_, _, errB := ctx.BindAndValidate(rB2, routeB)
	consB := c06Probe(routeB.Consumer)

	zv.Assert("entry-points-agree-on-acceptance", (errA == nil) == (errB == nil))
	if errA != nil && errB != nil {
		zv.Assert("entry-points-agree-on-status", c06Status(errA) == c06Status(errB))
	}
	if errA == nil && errB == nil {
		zv.Assert("entry-points-pick-the-same-consumer", consA == consB)
	}

	// ---- oracle ----
	if !hasBody {
		zv.Reach("no-body")
		zv.Assert("no-body-not-gated", errA == nil && errB == nil)
		zv.Assert("no-body-no-consumer", consA == "" && consB == "")
		zv.Assert("binder-runs", bindA == 1)
		return
	}
	eff := ct
	if !ctPresent || ct == "" {
		eff = runtime.DefaultMime
	}
	mt, _, perr := mime.ParseMediaType(eff)
	if perr != nil {
		zv.Reach("unparsable")
		zv.Assert("unparsable-content-type-is-400", errA != nil && c06Status(errA) == 400)
		zv.Assert("unparsable-content-type-is-400-reflective", errB != nil && c06Status(errB) == 400)
		zv.Assert("no-binding-on-400", bindA == 0)
		return
	}
	allowed := append(append([]string(nil), c06Consumes[ci]...), "application/json")
	direct, wildcard := false, false
	slash := strings.IndexByte(mt, '/')
	for _, a := range allowed {
		if strings.EqualFold(a, mt) {
			direct = true
		}
		if a == "*/*" || (slash > 0 && strings.Count(mt, "/") == 1 && strings.EqualFold(a, mt[:slash]+"/*")) {
			wildcard = true
		}
	}
	// a consumes entry spelled with a parameter whose bare type is the request's:
	// the statement does not say whether it admits the bare type; only the
	// agreement of the two entry points (asserted above) is demanded there
	for _, a := range allowed {
		if k := strings.IndexByte(a, ';'); k > 0 && strings.EqualFold(strings.TrimSpace(a[:k]), mt) && !direct {
			zv.Reach("parameterised-entry")
			return
		}
	}
	switch {
	case direct:
		zv.Reach("admitted")
		zv.Assert("admitted-accepted", errA == nil && errB == nil)
		zv.Assert("consumer-is-the-one-registered-for-the-media-type", zv.StrEq(consA, mt) && zv.StrEq(consB, mt))
		zv.Assert("binder-runs-when-admitted", bindA == 1)
	case wildcard:
		zv.Reach("wildcard")
		// admitted through a wildcard entry: never 415/400; a consumer, if any, is the media type's own
		if errA != nil {
			zv.Assert("wildcard-admitted-not-415", c06Status(errA) != 415 && c06Status(errA) != 400)
		}
		if consA != "" {
			zv.Assert("wildcard-consumer-is-own", zv.StrEq(consA, mt))
		}
	default:
		zv.Reach("refused")
		zv.Assert("not-admitted-is-415", errA != nil && c06Status(errA) == 415)
		zv.Assert("not-admitted-is-415-reflective", errB != nil && c06Status(errB) == 415)
		zv.Assert("no-binding-on-415", bindA == 0)
		zv.Assert("no-consumer-on-415", consA == "")
	}
}
