//go:build verif

package middleware

// C07 — Accept negotiation picks the best acceptable offer and only an offer.

import (
	"net/http"
	"strings"

	zv "github.com/go-openapi/runtime/internal/zzverif"
	"github.com/go-openapi/runtime/middleware/header"
)

var c07Offers = [][]string{
	{"application/json", "text/plain"},
	{"text/plain", "application/json", "text/csv"},
	{"text/plain; charset=utf-8", "application/json"},
	{"application/json", "application/json"},
	{"text/plain", "application/vnd.Acme+json"}, // offers are matched as spelled
	{},
}

var c07Defaults = []string{"", "application/xml"}

func c07Req(key string, lines ...string) *http.Request {
	h := http.Header{}
	if len(lines) > 0 {
		h[key] = lines
	}
	return &http.Request{Header: h}
}

func c07In(s string, set []string, def string) bool {
	if s == def {
		return true
	}
	for _, o := range set {
		if s == o {
			return true
		}
	}
	return false
}

// VerifC07Total: for arbitrary header bytes negotiation never panics and the
// result is an offer or the default.
func VerifC07Total() {
	offers := c07Offers[zv.Choose("offers", len(c07Offers))]
	def := c07Defaults[zv.Choose("default", len(c07Defaults))]
	n := zv.Param("rawlen", 3)
	var lines []string
	switch zv.Choose("lines", 3) {
	case 0: // header absent
	case 1:
		lines = []string{zv.String("accept", n)}
	case 2:
		lines = []string{zv.String("accept0", 1), zv.String("accept1", n-1)}
	}
	r := c07Req("Accept", lines...)
	var res string
	panicked := false
	func() {
		defer func() {
			if recover() != nil {
				panicked = true
			}
		}()
		res = NegotiateContentType(r, offers, def)
	}()
	zv.Assert("negotiate-never-panics", !panicked)
	if panicked {
		return
	}
	zv.Assert("result-is-offer-or-default", c07In(res, offers, def))
	if len(lines) == 0 && len(offers) > 0 {
		zv.Reach("no-header")
		zv.Assert("missing-accept-selects-first-offer", res == offers[0])
	}
	zv.Observe("result", res)
}

// VerifC07Encoding: the same for Accept-Encoding.
func VerifC07Encoding() {
	offers := [][]string{{"gzip", "deflate"}, {"identity", "gzip"}, {}}[zv.Choose("offers", 3)]
	n := zv.Param("rawlen", 3)
	var lines []string
	if zv.Choose("present", 2) == 1 {
		lines = []string{zv.String("ae", n)}
	}
	r := c07Req("Accept-Encoding", lines...)
	var res string
	panicked := false
	func() {
		defer func() {
			if recover() != nil {
				panicked = true
			}
		}()
		res = NegotiateContentEncoding(r, offers)
	}()
	zv.Assert("encoding-never-panics", !panicked)
	if panicked {
		return
	}
	zv.Assert("encoding-result-is-offer-identity-or-empty", res == "" || res == "identity" || c07In(res, offers, ""))
	zv.Observe("result", res)
}

// ("tex/*" and "app/*" admit nothing: a type range matches whole types only)
var c07Ranges = []string{"*/*", "text/*", "text/plain", "application/json", "image/png", "tex/*", "app/*", "application/vnd.Acme+json"}

// c07QText returns a q parameter text: absent, q=0, q=1, q=0.<digits>.
func c07QText(name string, digits int) string {
	switch zv.Choose(name+".form", 4) {
	case 0:
		return ""
	case 1:
		return ";q=0"
	case 2:
		return "; q=1"
	}
	d := zv.StringN(name+".digits", digits)
	for k := 0; k < len(d); k++ {
		zv.Assume(zv.And(d[k] >= '0', d[k] <= '9'))
	}
	return ";q=0." + d
}

func c07Matches(spec, offer string) (bool, int) {
	switch {
	case spec == "*/*":
		return true, 1
	case strings.HasSuffix(spec, "/*"):
		return strings.HasPrefix(offer, spec[:len(spec)-1]), 2
	}
	return spec == offer, 3
}

// VerifC07Select: the selected offer is the one matched by the range of highest
// quality, ties broken by specificity and then by offer order; q=0 never selects.
func VerifC07Select() {
	offers := c07Offers[zv.Choose("offers", 5)]
	def := c07Defaults[zv.Choose("default", len(c07Defaults))]
	nr := 1 + zv.Choose("nranges", zv.Param("ranges", 2))
	digits := zv.Param("qdigits", 1)
	acc := ""
	var sent []string // the media ranges as sent (the oracle matches these, not the parser's rendering of them)
	for k := 0; k < nr; k++ {
		if k > 0 {
			acc += ", "
		}
		rg := c07Ranges[zv.Choose("range", len(c07Ranges))]
		sent = append(sent, rg)
		acc += rg + c07QText("q"+string(rune('0'+k)), digits)
	}
	r := c07Req("Accept", acc)
	res := NegotiateContentType(r, offers, def)

	specs := header.ParseAccept(r.Header, "Accept")
	zv.Assert("all-wellformed-ranges-parsed", len(specs) == nr)
	best := -1
	bestQ := -1.0
	bestS := 0
	for i, raw := range offers {
		offer := raw
		if k := strings.IndexByte(raw, ';'); k >= 0 {
			offer = raw[:k]
		}
		for k, sp := range specs {
			if k >= len(sent) {
				break
			}
			ok, s := c07Matches(sent[k], offer)
			if !ok || sp.Q == 0 {
				continue
			}
			if sp.Q > bestQ || (sp.Q == bestQ && s > bestS) {
				best, bestQ, bestS = i, sp.Q, s
			}
		}
	}
	want := def
	if best >= 0 {
		want = offers[best]
		zv.Reach("selected")
	} else {
		zv.Reach("default")
	}
	zv.Assert("selection-is-best-acceptable-offer", res == want)
	zv.Observe("result", res)
}

// VerifC07Quality: two q texts of 1..D digits each: a smaller denoted number
// never outranks a larger one, equal numbers get equal quality, nothing is dropped.
func VerifC07Quality() {
	D := zv.Param("qdigits", 2)
	da := 1 + zv.Choose("lenA", D)
	db := 1 + zv.Choose("lenB", D)
	a := zv.StringN("a", da)
	b := zv.StringN("b", db)
	for k := 0; k < da; k++ {
		zv.Assume(zv.And(a[k] >= '0', a[k] <= '9'))
	}
	for k := 0; k < db; k++ {
		zv.Assume(zv.And(b[k] >= '0', b[k] <= '9'))
	}
	r := c07Req("Accept", "text/plain;q=0."+a+", application/json;q=0."+b)
	specs := header.ParseAccept(r.Header, "Accept")
	zv.Assert("no-wellformed-range-dropped", len(specs) == 2)
	if len(specs) != 2 {
		return
	}
	zv.Reach("two-specs")
	// exact comparison of the denoted numbers: 0.a vs 0.b by digit-wise
	// lexicographic comparison after right-padding with zeros
	n := da
	if db > n {
		n = db
	}
	less, eq := false, true
	for k := 0; k < n; k++ {
		ca, cb := byte('0'), byte('0')
		if k < da {
			ca = a[k]
		}
		if k < db {
			cb = b[k]
		}
		less = zv.Or(less, zv.And(eq, ca < cb))
		eq = zv.And(eq, ca == cb)
	}
	qa, qb := specs[0].Q, specs[1].Q
	zv.Assert("q-order-preserved-less", zv.Implies(less, !(qa > qb)))
	zv.Assert("q-order-preserved-equal", zv.Implies(eq, qa == qb))
	zv.Assert("q-strictly-ordered-when-representable", zv.Implies(less, qa < qb))
	// through the negotiation: the larger q wins whatever the offer order
	res := NegotiateContentType(r, []string{"text/plain", "application/json"}, "")
	zv.Assert("larger-q-wins", zv.Implies(less, res == "application/json"))
	res2 := NegotiateContentType(r, []string{"application/json", "text/plain"}, "")
	zv.Assert("larger-q-wins-rev", zv.Implies(less, res2 == "application/json"))
}

// VerifC07QDigits: one q text "0." followed by exactly D decimal digits (D may
// exceed what a machine word holds): the range is kept, its quality is in [0,1],
// and it is positive exactly when some digit is non-zero (so q>0 selects).
func VerifC07QDigits() {
	dl := []int{1, 3, 4, 9, 18, 19, 20, 21}
	D := dl[zv.Choose("digits", zv.Param("qlens", 3))]
	a := zv.StringN("a", D)
	if D >= 19 {
		// beyond 18 digits only the first and the last digit are arbitrary, the
		// others are '0' (fully symbolic texts of that length leave the solver
		// undecided on the FloatingPoint queries)
		a = zv.StringN("a", 1) + strings.Repeat("0", D-2) + zv.StringN("z", 1)
	}
	nonzero := false
	for k := 0; k < D; k++ {
		zv.Assume(zv.And(a[k] >= '0', a[k] <= '9'))
		nonzero = zv.Or(nonzero, a[k] != '0')
	}
	r := c07Req("Accept", "text/plain;q=0."+a+", application/json;q=0.05")
	specs := header.ParseAccept(r.Header, "Accept")
	zv.AssertExcept("wellformed-q-range-not-dropped", len(specs) == 2, D >= 19, "KF-C07-q-digit-overflow")
	if len(specs) != 2 {
		return
	}
	zv.Reach("kept")
	q := specs[0].Q
	zv.AssertExcept("q-in-unit-interval", zv.And(q >= 0, q <= 1), D >= 19, "KF-C07-q-digit-overflow")
	zv.AssertExcept("q-positive-iff-some-digit-nonzero", zv.Implies(nonzero, q > 0), D >= 19, "KF-C07-q-digit-overflow")
}

var c07Pivots = []string{"5", "1235", "05", "0004", "999", "100000000000001"}

// VerifC07QPivot: a q text of D symbolic digits against a concrete pivot q: the
// range denoting the larger number gets the strictly larger quality (the numbers
// are exactly distinguishable in float64 at these lengths) and wins the
// negotiation whatever the order of ranges and offers.
func VerifC07QPivot() {
	D := 1 + zv.Choose("digits", zv.Param("qdigits", 4))
	p := c07Pivots[zv.Choose("pivot", zv.Param("pivots", 5))]
	a := zv.StringN("a", D)
	for k := 0; k < D; k++ {
		zv.Assume(zv.And(a[k] >= '0', a[k] <= '9'))
	}
	n := D
	if len(p) > n {
		n = len(p)
	}
	less, eq := false, true
	for k := 0; k < n; k++ {
		ca, cb := byte('0'), byte('0')
		if k < D {
			ca = a[k]
		}
		if k < len(p) {
			cb = p[k]
		}
		less = zv.Or(less, zv.And(eq, ca < cb))
		eq = zv.And(eq, ca == cb)
	}
	greater := zv.And(zv.Not(less), zv.Not(eq))
	var r *http.Request
	swapped := zv.Choose("order", 2) == 1
	if swapped {
		r = c07Req("Accept", "application/json;q=0."+p+", text/plain;q=0."+a)
	} else {
		r = c07Req("Accept", "text/plain;q=0."+a+", application/json;q=0."+p)
	}
	specs := header.ParseAccept(r.Header, "Accept")
	zv.Assert("pivot-no-range-dropped", len(specs) == 2)
	if len(specs) != 2 {
		return
	}
	zv.Reach("two-specs")
	qa, qp := specs[0].Q, specs[1].Q
	if swapped {
		qa, qp = qp, qa
	}
	zv.Assert("pivot-less", zv.Implies(less, qa < qp))
	zv.Assert("pivot-equal", zv.Implies(eq, qa == qp))
	zv.Assert("pivot-greater", zv.Implies(greater, qa > qp))
	offers := []string{"text/plain", "application/json"}
	if zv.Choose("offerorder", 2) == 1 {
		offers = []string{"application/json", "text/plain"}
	}
	res := NegotiateContentType(r, offers, "")
	zv.Assert("pivot-larger-q-wins-json", zv.Implies(less, res == "application/json"))
	zv.Assert("pivot-larger-q-wins-text", zv.Implies(greater, res == "text/plain"))
	zv.Assert("pivot-tie-first-offer", zv.Implies(eq, res == offers[0]))
}
