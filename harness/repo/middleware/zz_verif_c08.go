//go:build verif

package middleware

// C08 — responses carry the declared status, negotiated type and that type's encoding.

import (
	stderrors "errors"
	"io"
	"net/http"
	"net/url"

	"github.com/go-openapi/errors"
	"github.com/go-openapi/runtime"
	"github.com/go-openapi/runtime/middleware/untyped"
	"github.com/go-openapi/runtime/security"
	"github.com/go-openapi/spec"

	zv "github.com/go-openapi/runtime/internal/zzverif"
)

var c08Produces = [][]string{
	{"application/json"},
	{"text/plain", "application/json"},
	{"text/plain; charset=utf-8", "application/json"},
	{"text/csv"},
	{},
	{"application/json", "text/plain"}, // the API default listed first
}

var c08Accepts = []string{"", "text/plain", "application/json", "*/*", "text/*", "image/png", "text/plain;q=0.1, application/json;q=0.9", "text/csv;q=0"}

var c08Registered = []string{"application/json", "text/plain", "text/csv"}

var c08Success = []int{200, 201, 204, 0}

const (
	c08Value = iota
	c08Responder
	c08APIError
	c08PlainError
	c08Nil
)

type c08Script struct {
	outcome   int
	respProd  string // media type of the producer handed to the Responder
	respCalls int
}

var c08S *c08Script

var errC08API = errors.New(409, "conflict")
var errC08Plain = stderrors.New("plain failure")

func c08ProbeProducer(p runtime.Producer) string {
	if p == nil {
		return ""
	}
	before := len(vRec.produced)
	_ = p.Produce(io.Discard, "probe")
	if len(vRec.produced) > before {
		mt := vRec.produced[len(vRec.produced)-1]
		vRec.produced = vRec.produced[:before]
		vRec.prodData = vRec.prodData[:before]
		return mt
	}
	return "?"
}

func c08Build(pi, si int, late bool) *Context {
	d := vAPIDesc{basePath: "/"}
	for _, m := range []string{"GET", "HEAD", "POST"} {
		d.ops = append(d.ops, vOp{method: m, path: "/thing", id: "op" + m, produces: c08Produces[pi], success: c08Success[si]})
	}
	doc := vDoc(vSwagger(d))
	api := untyped.NewAPI(doc)
	for _, mt := range c08Registered {
		mt := mt
		api.RegisterProducer(mt, runtime.ProducerFunc(func(w io.Writer, data interface{}) error {
			vRec.produced = append(vRec.produced, mt)
			vRec.prodData = append(vRec.prodData, data)
			_, err := w.Write([]byte(mt))
			return err
		}))
	}
	for _, m := range []string{"GET", "HEAD", "POST"} {
		api.RegisterOperation(m, "/thing", runtime.OperationHandlerFunc(func(params interface{}) (interface{}, error) {
			vRec.ranCount++
			switch c08S.outcome {
			case c08Value:
				return "the-value", nil
			case c08Responder:
				return ResponderFunc(func(rw http.ResponseWriter, p runtime.Producer) {
					c08S.respCalls++
					c08S.respProd = c08ProbeProducer(p)
				}), nil
			case c08APIError:
				return nil, errC08API
			case c08PlainError:
				return nil, errC08Plain
			}
			return nil, nil
		}))
	}
	responder := func(rw http.ResponseWriter, r *http.Request, err error) {
		vRec.servedErr = err
		vRec.errCount++
	}
	// the API's error responder is the one in place when a response is written,
	// whether it was assigned before or after the context was created
	if !late {
		api.ServeError = responder
	}
	ctx := NewContext(doc, api, nil)
	ctx.router = DefaultRouter(ctx.spec, ctx.api, WithDefaultRouterLoggerFunc(ctx.debugLogf))
	if late {
		api.ServeError = responder
	}
	return ctx
}

func c08Norm(s string) string {
	for k := 0; k < len(s); k++ {
		if s[k] == ';' {
			return s[:k]
		}
	}
	return s
}

// VerifC08Respond: status, Content-Type, producer identity for every outcome.
func VerifC08Respond() {
	pi := zv.Choose("produces", len(c08Produces))
	si := zv.Choose("success", len(c08Success))
	late := zv.Choose("responder-assigned-after-context", 2) == 1
	key := "c08-" + string(rune('0'+pi)) + string(rune('0'+si))
	if late {
		key += "L"
	}
	ctx := zv.Cached(key, func() interface{} { return c08Build(pi, si, late) }).(*Context)
	vRec = &vRecorder{}
	c08S = &c08Script{outcome: zv.Choose("outcome", 5)}
	method := []string{"GET", "HEAD", "POST"}[zv.Choose("method", 3)]
	accept := c08Accepts[zv.Choose("accept", len(c08Accepts))]
	r := &http.Request{Method: method, Header: http.Header{}, URL: &url.URL{Path: "/thing"}}
	if accept != "" {
		r.Header["Accept"] = []string{accept}
	}
	rw := vNewWriter()
	h := ctx.RoutesHandler(nil)
	panicked := false
	func() {
		defer func() {
			if recover() != nil {
				panicked = true
			}
		}()
		h.ServeHTTP(rw, r)
	}()
	zv.Assert("serving-never-panics", !panicked)
	if panicked {
		return
	}

	// ---- oracle ----
	produces := c08Produces[pi]
	offers := []string{}
	for _, p := range produces {
		if p != "application/json" {
			offers = append(offers, p)
		}
	}
	offers = append(offers, "application/json")
	format := NegotiateContentType(r, offers, "")
	routeProduces := append([]string(nil), produces...)
	if !vContains(routeProduces, "application/json") {
		routeProduces = append(routeProduces, "application/json")
	}
	acceptable := NegotiateContentType(r, routeProduces, "") != ""
	if !acceptable {
		zv.Reach("406")
		zv.Assert("not-acceptable-handler-does-not-run", vRec.ranCount == 0)
		zv.Assert("not-acceptable-error-responder", vRec.errCount == 1)
		if vRec.errCount == 1 {
			zv.Assert("not-acceptable-is-406", c06Status(vRec.servedErr) == 406)
		}
		return
	}
	zv.Assert("handler-ran-once", vRec.ranCount == 1)
	gotCT := rw.hdr.Get("Content-Type")
	code := c08Success[si]
	switch c08S.outcome {
	case c08Value, c08Nil:
		if code == 0 {
			// default-only responses: an error responder or some response, no panic
			zv.Reach("default-only")
			return
		}
		zv.Reach("value")
		zv.Assert("status-is-declared-success", rw.status == code && rw.nwh == 1)
		zv.Assert("content-type-is-negotiated-type", gotCT == format)
		if method == "HEAD" || code == 204 {
			zv.Reach("no-body")
			zv.Assert("no-producer-for-head-or-204", len(vRec.produced) == 0 && len(rw.body) == 0)
		} else {
			zv.Assert("one-producer-call", len(vRec.produced) == 1)
			if len(vRec.produced) == 1 {
				zv.AssertExcept("producer-is-the-negotiated-types", vRec.produced[0] == c08Norm(format), format != c08Norm(format), "KF-C08-producer-lookup-not-normalised")
				if c08S.outcome == c08Value {
					d, _ := vRec.prodData[0].(string)
					zv.Assert("producer-gets-the-handlers-value", d == "the-value")
				}
			}
		}
	case c08Responder:
		zv.Reach("responder")
		zv.Assert("responder-called-once", c08S.respCalls == 1)
		zv.Assert("content-type-is-negotiated-type-responder", gotCT == format)
		zv.Assert("responder-gets-the-negotiated-types-producer", c08S.respProd == c08Norm(format))
	case c08APIError, c08PlainError:
		zv.Reach("error")
		zv.Assert("error-responder-called-once", vRec.errCount == 1)
		want := error(errC08API)
		if c08S.outcome == c08PlainError {
			want = errC08Plain
		}
		zv.Assert("error-responder-gets-the-error", vRec.servedErr == want)
		zv.Assert("no-producer-on-error", len(vRec.produced) == 0)
		if format == "" {
			zv.Assert("json-content-type-when-nothing-negotiated", gotCT == runtime.JSONMime)
		} else {
			zv.Assert("content-type-is-negotiated-type-error", gotCT == format)
		}
	}
	zv.Observe("status", rw.status)
	zv.Observe("ct", gotCT)
}

// VerifC08Challenge: a failed basic-auth attempt carries a challenge naming the realm.
func VerifC08Challenge() {
	realm := "r" + zv.StringN("realm", zv.Param("realmlen", 1))
	for k := 0; k < len(realm); k++ {
		zv.Assume(zv.And(realm[k] >= 0x20, realm[k] < 0x7f))
	}
	d := vAPIDesc{basePath: "/", secDefs: map[string]*spec.SecurityScheme{"basic": spec.BasicAuth()},
		ops: []vOp{{method: "GET", path: "/s", id: "s", success: 200, security: []map[string][]string{{"basic": {}}}}}}
	doc := vDoc(vSwagger(d))
	api := untyped.NewAPI(doc)
	vRec = &vRecorder{}
	// whatever class of error the credential check fails with
	errClass := zv.Choose("callback-error", 3)
	api.RegisterAuth("basic", security.BasicAuthRealm(realm, func(u, p string) (interface{}, error) {
		switch errClass {
		case 1:
			return nil, errors.New(http.StatusForbidden, "locked out")
		case 2:
			return nil, stderrors.New("directory unreachable")
		}
		return nil, errors.Unauthenticated("basic")
	}))
	api.RegisterOperation("GET", "/s", runtime.OperationHandlerFunc(func(params interface{}) (interface{}, error) {
		vRec.ranCount++
		return "ok", nil
	}))
	api.ServeError = func(rw http.ResponseWriter, r *http.Request, err error) {
		vRec.servedErr = err
		vRec.errCount++
	}
	ctx := NewContext(doc, api, nil)
	r := &http.Request{Method: "GET", Header: http.Header{}, URL: &url.URL{Path: "/s"}}
	if zv.Choose("creds", 2) == 1 {
		r.Header.Set("Authorization", "Basic dTpw") // u:p
	}
	rw := vNewWriter()
	ctx.RoutesHandler(nil).ServeHTTP(rw, r)
	zv.Assert("challenge-handler-does-not-run", vRec.ranCount == 0)
	zv.Assert("challenge-error-responder", vRec.errCount == 1)
	ch := rw.hdr.Get("WWW-Authenticate")
	plain := true
	for k := 0; k < len(realm); k++ {
		if realm[k] == '"' || realm[k] == '\\' {
			plain = false
		}
	}
	if plain {
		zv.Reach("plain-realm")
		zv.Assert("challenge-names-the-realm", zv.StrEq(ch, "Basic realm=\""+realm+"\""))
	} else {
		zv.Assert("challenge-present", len(ch) > len("Basic realm=\"\""))
	}
}
