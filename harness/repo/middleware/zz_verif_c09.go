//go:build verif

package middleware

// C09 — per-request state is private; stage results are reused.

import (
	"io"
	"net/http"
	"net/url"

	"github.com/go-openapi/runtime"
	"github.com/go-openapi/runtime/middleware/untyped"
	"github.com/go-openapi/spec"

	zv "github.com/go-openapi/runtime/internal/zzverif"
)

type c09Script struct {
	lookups   int
	authCalls int
	authz     int
	consumes  []string
	bodyReads int
	handled   int
	seenID    string
	seenBody  interface{}
	accept    map[string]bool // token -> accepted
	principal interface{}     // what the accepting authenticator yields (any non-nil value is a principal)
}

// c09Principals: principals need not be "truthy" values.
var c09Principals = []interface{}{"principal", 0, "", false}

var c09S *c09Script

type c09Router struct{ inner Router }

func (r *c09Router) Lookup(method, path string) (*MatchedRoute, bool) {
	c09S.lookups++
	return r.inner.Lookup(method, path)
}
func (r *c09Router) OtherMethods(method, path string) []string {
	return r.inner.OtherMethods(method, path)
}

type c09Body struct {
	data string
	pos  int
}

func (b *c09Body) Read(p []byte) (int, error) {
	c09S.bodyReads++
	if b.pos >= len(b.data) {
		return 0, io.EOF
	}
	n := copy(p, b.data[b.pos:])
	b.pos += n
	return n, nil
}
func (b *c09Body) Close() error { return nil }

func c09Build() *Context {
	body := spec.BodyParam("body", &spec.Schema{})
	d := vAPIDesc{basePath: "/", secDefs: map[string]*spec.SecurityScheme{"key": spec.APIKeyAuth("X-Key", "header")},
		ops: []vOp{
			{method: "POST", path: "/notes", id: "addNote", consumes: []string{"application/json", "text/plain"}, produces: []string{"application/json", "text/plain"}, success: 201, params: []spec.Parameter{*body}},
			{method: "POST", path: "/items/{id}", id: "addItem", consumes: []string{"application/json", "text/plain"}, produces: []string{"application/json", "text/plain"}, success: 201,
				params:   []spec.Parameter{*spec.PathParam("id").Typed("string", ""), *spec.QueryParam("need").Typed("string", "").AsRequired(), *body},
				security: []map[string][]string{{"key": {"write"}}}},
		}}
	doc := vDoc(vSwagger(d))
	api := untyped.NewAPI(doc)
	for _, mt := range []string{"application/json", "text/plain"} {
		mt := mt
		api.RegisterConsumer(mt, runtime.ConsumerFunc(func(r io.Reader, data interface{}) error {
			c09S.consumes = append(c09S.consumes, mt)
			buf := make([]byte, 8)
			n, _ := r.Read(buf)
			c09S.seenBody = mt + ":" + string(buf[:n])
			return nil
		}))
		api.RegisterProducer(mt, runtime.ProducerFunc(func(w io.Writer, data interface{}) error { return nil }))
	}
	api.RegisterAuth("key", runtime.AuthenticatorFunc(func(params interface{}) (bool, interface{}, error) {
		c09S.authCalls++
		return true, c09S.principal, nil
	}))
	api.RegisterAuthorizer(runtime.AuthorizerFunc(func(r *http.Request, pr interface{}) error {
		c09S.authz++
		return nil
	}))
	h := runtime.OperationHandlerFunc(func(params interface{}) (interface{}, error) {
		c09S.handled++
		if m, ok := params.(map[string]interface{}); ok {
			if id, ok := m["id"].(string); ok {
				c09S.seenID = id
			}
		}
		return "ok", nil
	})
	api.RegisterOperation("POST", "/notes", h)
	api.RegisterOperation("POST", "/items/{id}", h)
	api.ServeError = func(rw http.ResponseWriter, r *http.Request, err error) {
		vRec.servedErr = err
		vRec.errCount++
	}
	ctx := NewContext(doc, api, nil)
	ctx.router = &c09Router{inner: DefaultRouter(ctx.spec, ctx.api, WithDefaultRouterLoggerFunc(ctx.debugLogf))}
	return ctx
}

func c09Req(path, ct, accept, body string) *http.Request {
	r := &http.Request{Method: "POST", Header: http.Header{}, URL: &url.URL{Path: path, RawQuery: "need=1"}, ContentLength: int64(len(body)), Body: &c09Body{data: body}}
	r.Header.Set("Content-Type", ct)
	if accept != "" {
		r.Header.Set("Accept", accept)
	}
	r.Header.Set("X-Key", "k")
	return r
}

// VerifC09Memo: every sequence of the per-request accessors, threading the
// request each stage returns: results are reused, not recomputed.
func VerifC09Memo() {
	ctx := zv.Cached("c09", func() interface{} { return c09Build() }).(*Context)
	vRec = &vRecorder{}
	c09S = &c09Script{principal: c09Principals[zv.Choose("principal", len(c09Principals))]}
	ct := []string{"application/json", "text/plain", "image/png", "application/json; charset=UTF-8"}[zv.Choose("ct", 4)]
	accept := []string{"", "text/plain", "image/png"}[zv.Choose("accept", 3)]
	r := c09Req("/items/42", ct, accept, "abc")
	// the request may also be invalid at the parameter stage (required query parameter missing)
	if zv.Choose("required-parameter-sent", 2) == 0 {
		r.URL.RawQuery = ""
	}
	var firstCS string
	var route *MatchedRoute
	var firstFormat string
	haveFormat := false
	var firstCT string
	haveCT := false
	var firstPrinc interface{}
	havePrinc := false
	var firstBound interface{}
	haveBound := false
	boundValid := false
	steps := zv.Param("steps", 3)
	for k := 0; k < steps; k++ {
		switch zv.Choose("accessor", 5) {
		case 0:
			rt, r2, ok := ctx.RouteInfo(r)
			zv.Assert("route-found", ok)
			if route != nil {
				zv.Reach("route-again")
				zv.Assert("matched-route-reused", rt == route)
				zv.Assert("same-request-when-cached", r2 == r)
			}
			route, r = rt, r2
			zv.Assert("route-looked-up-at-most-once", c09S.lookups == 1)
		case 1:
			mt, cs, r2, err := ctx.ContentType(r)
			if err == nil {
				if haveCT {
					zv.Reach("ct-again")
					zv.Assert("content-type-reused", mt == firstCT && cs == firstCS && r2 == r)
				}
				firstCT, firstCS, haveCT = mt, cs, true
				r = r2
			}
		case 2:
			f, r2 := ctx.ResponseFormat(r, []string{"application/json", "text/plain; charset=utf-8"})
			if haveFormat {
				zv.Reach("format-again")
				zv.Assert("negotiated-format-reused", f == firstFormat && r2 == r)
			}
			if f != "" {
				firstFormat, haveFormat = f, true
			}
			r = r2
		case 3:
			if route == nil {
				break
			}
			pr, r2, err := ctx.Authorize(r, route)
			zv.Assert("authorize-accepts", err == nil && pr != nil)
			if err != nil || r2 == nil {
				break
			}
			if havePrinc {
				zv.Reach("auth-again")
				zv.Assert("principal-reused", pr == firstPrinc && r2 == r)
			}
			firstPrinc, havePrinc = pr, true
			r = r2
			zv.Assert("accepting-authenticator-consulted-once", c09S.authCalls == 1)
		case 4:
			if route == nil {
				break
			}
			b, r2, err := ctx.BindAndValidate(r, route)
			if haveBound {
				zv.Reach("bind-again")
				zv.Assert("binding-outcome-reused", (err == nil) == boundValid && r2 == r)
				m1, _ := firstBound.(map[string]interface{})
				m2, _ := b.(map[string]interface{})
				zv.Assert("bound-values-reused", len(m1) == len(m2))
			}
			firstBound, haveBound, boundValid = b, true, err == nil
			r = r2
			zv.Assert("body-consumed-at-most-once", len(c09S.consumes) <= 1)
		}
	}
	zv.Assert("route-lookups-bounded", c09S.lookups <= 1)
	zv.Assert("consumer-runs-at-most-once", len(c09S.consumes) <= 1)
	zv.Assert("authenticator-runs-at-most-once", c09S.authCalls <= 1)
}

// VerifC09Isolation: two requests served one after the other by the same handler
// instance: everything the second one sees is derived from the second alone.
func VerifC09Isolation() {
	ctx := c09Build() // built per path: a leak between requests must show as a violation, not as a write to cached state
	h := ctx.RoutesHandler(nil)
	cts := []string{"application/json", "text/plain"}
	paths := []string{"/notes", "/items/7", "/items/8"}
	vRec = &vRecorder{}
	c09S = &c09Script{principal: "principal"}
	r1 := c09Req(paths[zv.Choose("path1", 3)], cts[zv.Choose("ct1", 2)], "", "one")
	h.ServeHTTP(vNewWriter(), r1)
	zv.Assert("first-request-handled", c09S.handled == 1 && vRec.errCount == 0)

	c09S = &c09Script{principal: "principal"}
	p2 := zv.Choose("path2", 3)
	c2 := zv.Choose("ct2", 2)
	r2 := c09Req(paths[p2], cts[c2], "", "two")
	h.ServeHTTP(vNewWriter(), r2)
	zv.Assert("second-request-handled", c09S.handled == 1 && vRec.errCount == 0)
	zv.Assert("second-body-decoded-by-its-own-consumer", len(c09S.consumes) == 1 && c09S.consumes[0] == cts[c2])
	want := ""
	if p2 == 1 {
		want = "7"
	} else if p2 == 2 {
		want = "8"
	}
	zv.Assert("second-sees-its-own-path-parameter", c09S.seenID == want)
	b, _ := c09S.seenBody.(string)
	zv.Assert("second-sees-its-own-body", b == cts[c2]+":two")
	if p2 != 0 {
		zv.Assert("second-authenticated-itself", c09S.authCalls == 1)
	}
	zv.Reach("two-served")
}

// VerifC09Shared: serving one request writes nothing that other requests can
// reach (inductive step of data-race freedom and isolation for any number of
// concurrent requests): shared-write monitor over the Context object graph.
func VerifC09Shared() {
	ctx := c09Build()
	h := ctx.RoutesHandler(nil)
	vRec = &vRecorder{}
	c09S = &c09Script{principal: "principal"}
	// warm-up request: lazily built state is created before the step is monitored
	h.ServeHTTP(vNewWriter(), c09Req("/items/1", "application/json", "", "w"))
	c09S = &c09Script{principal: "principal"}
	r := c09Req([]string{"/notes", "/items/7", "/nope"}[zv.Choose("path", 3)], []string{"application/json", "text/plain", "image/png"}[zv.Choose("ct", 3)],
		[]string{"", "text/plain", "image/png"}[zv.Choose("accept", 3)], "x")
	zv.BeginShared(ctx, h)
	h.ServeHTTP(vNewWriter(), r)
	zv.EndShared()
	zv.Reach("served")
}
