//go:build verif

package middleware

// C19 (second sentence) — an API that passes validation serves every declared
// operation without ever failing a request for lack of a registered consumer,
// producer, handler or authenticator.

import (
	"io"
	"net/http"
	"net/url"

	"github.com/go-openapi/runtime"
	"github.com/go-openapi/runtime/middleware/untyped"
	"github.com/go-openapi/spec"

	zv "github.com/go-openapi/runtime/internal/zzverif"
)

type c19sOp struct {
	method, path, reqPath string
	consumes, produces    []string // per-operation (nil = the global lists)
	secured               bool
}

type c19sDesc struct {
	basePath           string
	consumes, produces []string
	ops                []c19sOp
}

// media types are lower-case, parameter-free and wildcard-free (as the statement requires)
var c19sDescs = []c19sDesc{
	{"/", []string{"application/json"}, []string{"application/json"}, []c19sOp{
		{method: "GET", path: "/a", reqPath: "/a"}, {method: "POST", path: "/a", reqPath: "/a"}}},
	{"/", []string{"application/json"}, []string{"application/json", "text/plain"}, []c19sOp{
		{method: "GET", path: "/a", reqPath: "/a", secured: true},
		{method: "POST", path: "/b", reqPath: "/b", consumes: []string{"text/csv", "application/xml"}, produces: []string{"text/csv"}}}},
	{"/api", []string{"text/plain"}, []string{"text/plain"}, []c19sOp{
		{method: "GET", path: "/items/{id}", reqPath: "/api/items/7"},
		{method: "PUT", path: "/items/{id}", reqPath: "/api/items/7", secured: true},
		{method: "DELETE", path: "/items/{id}/sub", reqPath: "/api/items/7/sub"}}},
	{"/", []string{"application/json"}, []string{"application/json"}, []c19sOp{
		{method: "GET", path: "/things/", reqPath: "/things/"}, {method: "GET", path: "/things/{id}", reqPath: "/things/3"}}},
}

type c19sSetup struct {
	handler http.Handler
	valid   bool
}

var c19sRan string

func c19sBuild(di int) *c19sSetup {
	d := c19sDescs[di]
	vd := vAPIDesc{basePath: d.basePath, consumes: d.consumes, produces: d.produces,
		secDefs: map[string]*spec.SecurityScheme{}}
	for k, o := range d.ops {
		op := vOp{method: o.method, path: o.path, id: "op" + string(rune('0'+k)), consumes: o.consumes, produces: o.produces, success: 200}
		if o.secured {
			vd.secDefs["key"] = spec.APIKeyAuth("X-Key", "header")
			op.security = []map[string][]string{{"key": {}}}
		}
		vd.ops = append(vd.ops, op)
	}
	if len(vd.secDefs) == 0 {
		vd.secDefs = nil
	}
	doc := vDoc(vSwagger(vd))
	api := untyped.NewAPI(doc).WithoutJSONDefaults()
	// register exactly what the description requires
	an := doc.Analyzer
	for _, c := range an.RequiredConsumes() {
		api.RegisterConsumer(c, runtime.ConsumerFunc(func(io.Reader, interface{}) error { return nil }))
	}
	for _, p := range an.RequiredProduces() {
		api.RegisterProducer(p, runtime.ProducerFunc(func(io.Writer, interface{}) error { return nil }))
	}
	for _, a := range an.RequiredSecuritySchemes() {
		api.RegisterAuth(a, runtime.AuthenticatorFunc(func(interface{}) (bool, interface{}, error) { return true, "someone", nil }))
	}
	for k, o := range d.ops {
		id := "op" + string(rune('0'+k))
		api.RegisterOperation(o.method, o.path, runtime.OperationHandlerFunc(func(interface{}) (interface{}, error) {
			c19sRan = id
			return "ok", nil
		}))
	}
	api.ServeError = func(rw http.ResponseWriter, r *http.Request, err error) {
		vRec.servedErr = err
		vRec.errCount++
	}
	valid := api.Validate() == nil
	ctx := NewContext(doc, api, nil)
	return &c19sSetup{handler: ctx.RoutesHandler(nil), valid: valid}
}

// VerifC19Serve: every declared operation of a validated API, under every
// declared request and response media type.
func VerifC19Serve() {
	di := zv.Choose("description", len(c19sDescs))
	d := c19sDescs[di]
	su := zv.Cached("c19s-"+string(rune('0'+di)), func() interface{} { return c19sBuild(di) }).(*c19sSetup)
	zv.Assert("exact-registrations-validate", su.valid)
	oi := zv.Choose("operation", len(d.ops))
	o := d.ops[oi]
	cons, prods := o.consumes, o.produces
	if cons == nil {
		cons = d.consumes
	}
	if prods == nil {
		prods = d.produces
	}
	vRec = &vRecorder{}
	c19sRan = ""
	r := &http.Request{Method: o.method, Header: http.Header{}, URL: &url.URL{Path: o.reqPath}}
	if o.method == "POST" || o.method == "PUT" {
		r.Header.Set("Content-Type", cons[zv.Choose("content-type", len(cons))])
		r.Body = &c06Body{n: 2}
		r.ContentLength = 2
	}
	r.Header.Set("Accept", prods[zv.Choose("accept", len(prods))])
	if o.secured {
		r.Header.Set("X-Key", "k")
	}
	rw := vNewWriter()
	su.handler.ServeHTTP(rw, r)
	zv.Reach("served")
	// known finding (same root cause as KF-C04-trailing-slash-template): the
	// operation whose template ends in '/' has no route although validation passed
	trailing := len(o.path) > 1 && o.path[len(o.path)-1] == '/'
	zv.AssertExcept("validated-operation-is-served", c19sRan == "op"+string(rune('0'+oi)) && vRec.errCount == 0, trailing, "KF-C19-trailing-slash-template")
}
