//go:build verif

package middleware

// C20 — spec and docs middlewares intercept only their own path; UI and spec URL agree.

import (
	"encoding/json"
	"net/http"
	"net/url"
	"path"

	zv "github.com/go-openapi/runtime/internal/zzverif"
)

type c20Next struct {
	calls   int
	req     *http.Request
	urlPath string
}

func (n *c20Next) ServeHTTP(rw http.ResponseWriter, r *http.Request) {
	n.calls++
	n.req = r
	n.urlPath = r.URL.Path
}

var c20SpecBytes = []byte(`{"swagger":"2.0"}`)

func c20ReqPath(name string, around []string) string {
	// either fully symbolic or a concrete candidate ⧺ symbolic tail
	k := zv.Choose(name+".form", len(around)+1)
	if k == len(around) {
		return zv.String(name+".raw", zv.Param("rawlen", 3))
	}
	return around[k] + zv.String(name+".tail", zv.Param("taillen", 2))
}

// VerifC20Spec: the spec middleware.
func VerifC20Spec() {
	base := []string{"", "/", "/api", "/api/", "x"}[zv.Choose("base", 5)]
	var opts []SpecOption
	specPath := ""
	switch zv.Choose("specpath", 3) {
	case 1:
		specPath = "v1"
	case 2:
		specPath = "/v1/"
	}
	if specPath != "" {
		opts = append(opts, WithSpecPath(specPath))
	}
	docName := "swagger.json"
	switch zv.Choose("doc", 4) {
	case 1:
		opts = append(opts, WithSpecDocument(""))
	case 2:
		docName = "d.yml"
		opts = append(opts, WithSpecDocument(docName))
	case 3:
		docName = "d" + zv.StringN("docsym", 1)
		zv.Assume(zv.And(docName[1] != '/', docName[1] != 0))
		opts = append(opts, WithSpecDocument(docName))
	}
	hasNext := zv.Choose("next", 2) == 1
	nx := &c20Next{}
	var next http.Handler
	if hasNext {
		next = nx
	}
	h := Spec(base, c20SpecBytes, next, opts...)

	b := base
	if b == "" {
		b = "/"
	}
	want := path.Join(b, specPath, docName)
	reqPath := c20ReqPath("path", []string{want, want + "/", "/", path.Dir(want) + "/./" + path.Base(want)})
	r := &http.Request{Method: "GET", Header: http.Header{}, URL: &url.URL{Path: reqPath}}
	rw := vNewWriter()
	h.ServeHTTP(rw, r)

	if path.Clean(reqPath) == want {
		zv.Reach("intercepted")
		zv.Assert("spec-served-200", rw.status == 200)
		zv.Assert("spec-exact-bytes", string(rw.body) == string(c20SpecBytes))
		zv.Assert("spec-json-type", rw.hdr.Get("Content-Type") == "application/json")
		zv.Assert("next-not-called-when-intercepted", nx.calls == 0)
		return
	}
	if hasNext {
		zv.Reach("passed-on")
		zv.Assert("other-request-handed-to-next-once", nx.calls == 1)
		zv.Assert("same-request-object", nx.req == r)
		zv.Assert("request-path-unmodified", zv.StrEq(nx.urlPath, reqPath) && zv.StrEq(r.URL.Path, reqPath))
		zv.Assert("writer-untouched", rw.status == 0 && len(rw.body) == 0 && len(rw.hdr) == 0)
	} else {
		zv.Reach("404")
		zv.Assert("no-next-is-404", rw.status == 404 && len(rw.body) == 0)
	}
}

// VerifC20UI: the UI-serving middleware shared by Redoc, RapiDoc, SwaggerUI and
// the OAuth2 callback.
func VerifC20UI() {
	var o uiOptions
	var ops []UIOption
	switch zv.Choose("basepath", 4) {
	case 1:
		ops = append(ops, WithUIBasePath("/base"))
	case 2:
		ops = append(ops, WithUIBasePath("base/"))
	case 3:
		ops = append(ops, WithUIBasePath("/"+zv.StringN("bp", 1)))
	}
	switch zv.Choose("uipath", 3) {
	case 1:
		ops = append(ops, WithUIPath("ui"))
	case 2:
		ops = append(ops, WithUIPath("/a/b/"))
	}
	o = uiOptionsWithDefaults(ops)
	o.EnsureDefaults()
	pth := path.Join(o.BasePath, o.Path)
	assets := []byte("<html>page</html>")
	hasNext := zv.Choose("next", 2) == 1
	nx := &c20Next{}
	var next http.Handler
	if hasNext {
		next = nx
	}
	h := serveUI(pth, assets, next)
	reqPath := c20ReqPath("path", []string{pth, pth + "/", pth + "/../" + path.Base(pth)})
	r := &http.Request{Method: "GET", Header: http.Header{}, URL: &url.URL{Path: reqPath}}
	rw := vNewWriter()
	h.ServeHTTP(rw, r)
	if path.Clean(reqPath) == pth {
		zv.Reach("intercepted")
		zv.Assert("ui-served-200", rw.status == 200 && string(rw.body) == string(assets))
		zv.Assert("ui-html-type", rw.hdr.Get("Content-Type") == "text/html; charset=utf-8")
		zv.Assert("next-not-called-when-intercepted", nx.calls == 0)
		return
	}
	if hasNext {
		zv.Reach("passed-on")
		zv.Assert("other-request-handed-to-next-once", nx.calls == 1 && nx.req == r)
		zv.Assert("request-path-unmodified", zv.StrEq(nx.urlPath, reqPath) && zv.StrEq(r.URL.Path, reqPath))
		zv.Assert("writer-untouched", rw.status == 0 && len(rw.body) == 0 && len(rw.hdr) == 0)
	} else {
		zv.Reach("404")
		zv.Assert("no-next-is-404", rw.status == 404)
	}
}

var c20SpecURLs = []string{"", "/swagger.json", "/specs/doc.json", "http://example.com/a/b.json", "/x%20y.json", "https://h/s%2Fp/spec.yml", "/deep/er/path/swagger.json"}

// VerifC20Handler: the composition built by the API handlers: the page references
// the location at which the spec is served; other paths reach the API routes.
func VerifC20Handler() {
	apiBase := []string{"", "/", "/api", "/api/"}[zv.Choose("apibase", 4)]
	sw := vSwagger(vAPIDesc{basePath: apiBase})
	doc := vDoc(sw)
	zv.SetField(doc, "raw", json.RawMessage(c20SpecBytes))
	c := &Context{spec: doc, analyzer: doc.Analyzer}
	var opts []UIOption
	su := c20SpecURLs[zv.Choose("specurl", len(c20SpecURLs))]
	if su != "" {
		opts = append(opts, WithUISpecURL(su))
	}
	if zv.Choose("uipath", 2) == 1 {
		opts = append(opts, WithUIPath("ui"))
	}
	specPath, uiOpts, specOpts := c.uiOptionsForHandler(opts)
	uiOpts.EnsureDefaults() // what RedocOpts/RapiDocOpts/SwaggerUIOpts.EnsureDefaults do for the common fields
	routes := &c20Next{}
	h := Spec(specPath, c.spec.Raw(), serveUI(path.Join(uiOpts.BasePath, uiOpts.Path), []byte("page:"+uiOpts.SpecURL), routes), specOpts...)

	referenced := uiOpts.SpecURL // what the page's template renders
	u, err := url.Parse(referenced)
	zv.Assert("referenced-url-parses", err == nil)
	if err != nil {
		return
	}
	// 1. fetching the referenced location yields the spec document
	rw := vNewWriter()
	h.ServeHTTP(rw, &http.Request{Method: "GET", Header: http.Header{}, URL: &url.URL{Path: u.Path, RawPath: u.RawPath}})
	zv.Reach("fetched")
	zv.Assert("spec-is-served-at-the-referenced-location", rw.status == 200 && string(rw.body) == string(c20SpecBytes))
	zv.Assert("routes-not-hit-for-spec", routes.calls == 0)
	// 2. the UI page is served at base/path and references the spec URL
	rw = vNewWriter()
	uiPath := path.Join(uiOpts.BasePath, uiOpts.Path)
	h.ServeHTTP(rw, &http.Request{Method: "GET", Header: http.Header{}, URL: &url.URL{Path: uiPath}})
	zv.Assert("ui-page-served", rw.status == 200 && string(rw.body) == "page:"+referenced)
	// 3. any other path reaches the API routes
	other := c20ReqPath("other", []string{"/pets", uiPath + "x", u.Path + "x"})
	if path.Clean(other) != uiPath && path.Clean(other) != path.Clean(u.Path) {
		rw = vNewWriter()
		before := routes.calls
		h.ServeHTTP(rw, &http.Request{Method: "GET", Header: http.Header{}, URL: &url.URL{Path: other}})
		zv.Reach("other")
		zv.Assert("api-operations-remain-reachable", routes.calls == before+1)
	}
}
