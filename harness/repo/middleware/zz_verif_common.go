//go:build verif

package middleware

// Shared scaffolding of the middleware harnesses: API descriptions built as
// spec literals (no JSON loading), a scripted RoutableAPI, recording writers.

import (
	"io"
	"net/http"

	"github.com/go-openapi/analysis"
	"github.com/go-openapi/loads"
	"github.com/go-openapi/runtime"
	"github.com/go-openapi/spec"
	"github.com/go-openapi/strfmt"

	zv "github.com/go-openapi/runtime/internal/zzverif"
)

type vOp struct {
	method   string
	path     string
	id       string
	consumes []string
	produces []string
	params   []spec.Parameter
	security []map[string][]string
	success  int // declared success status (0 = default-only)
}

type vAPIDesc struct {
	basePath string
	ops      []vOp
	consumes []string
	produces []string
	secDefs  map[string]*spec.SecurityScheme
	security []map[string][]string
}

func vSwagger(d vAPIDesc) *spec.Swagger {
	sw := &spec.Swagger{}
	sw.Swagger = "2.0"
	sw.BasePath = d.basePath
	sw.Consumes = d.consumes
	sw.Produces = d.produces
	sw.SecurityDefinitions = d.secDefs
	sw.Security = d.security
	sw.Info = &spec.Info{}
	sw.Info.Title = "verif"
	sw.Info.Version = "1"
	sw.Paths = &spec.Paths{Paths: map[string]spec.PathItem{}}
	for k := range d.ops {
		o := d.ops[k]
		op := &spec.Operation{}
		op.ID = o.id
		op.Consumes = o.consumes
		op.Produces = o.produces
		op.Parameters = o.params
		op.Security = o.security
		op.Responses = &spec.Responses{}
		if o.success != 0 {
			op.Responses.StatusCodeResponses = map[int]spec.Response{o.success: {}}
		} else {
			op.Responses.Default = &spec.Response{}
		}
		pi := sw.Paths.Paths[o.path]
		switch o.method {
		case "GET":
			pi.Get = op
		case "POST":
			pi.Post = op
		case "PUT":
			pi.Put = op
		case "DELETE":
			pi.Delete = op
		case "HEAD":
			pi.Head = op
		case "PATCH":
			pi.Patch = op
		case "OPTIONS":
			pi.Options = op
		}
		sw.Paths.Paths[o.path] = pi
	}
	return sw
}

func vDoc(sw *spec.Swagger) *loads.Document {
	doc := &loads.Document{}
	zv.SetField(doc, "spec", sw)
	zv.SetField(doc, "origSpec", sw)
	doc.Analyzer = analysis.New(sw)
	return doc
}

// ---- scripted RoutableAPI ----

type vHandler struct {
	api *vAPI
	id  string
}

func (h *vHandler) ServeHTTP(rw http.ResponseWriter, r *http.Request) {
	vRec.ranID = h.id
	vRec.ranCount++
	vRec.ranReq = r
	if vRec.onRun != nil {
		vRec.onRun(rw, r)
	}
}

// vRecorder collects what the stubs observed during one path. It is reached
// through a package-level variable so that API objects built once (zv.Cached)
// stay immutable.
type vRecorder struct {
	ranID     string
	ranCount  int
	ranReq    *http.Request
	onRun     func(http.ResponseWriter, *http.Request)
	servedErr error
	errCount  int
	errOp     string
	consumed  []string
	produced  []string
	prodData  []interface{}
	authCalls []string
	authzCalls int
	bindCalls int
}

var vRec *vRecorder

type vAPI struct {
	desc       vAPIDesc
	handlers   map[string]*vHandler
	defProd    string
	defCons    string
	auths      map[string]runtime.Authenticator
	authorizer runtime.Authorizer
	formats    strfmt.Registry
	noConsumer map[string]bool
	noProducer map[string]bool
}

func vNewAPI(d vAPIDesc) *vAPI {
	a := &vAPI{desc: d, handlers: map[string]*vHandler{}, defProd: "application/json", defCons: "application/json"}
	for _, o := range d.ops {
		a.handlers[o.method+" "+o.path] = &vHandler{api: a, id: o.id}
	}
	return a
}

func (a *vAPI) HandlerFor(method, path string) (http.Handler, bool) {
	h, ok := a.handlers[vUpper(method)+" "+path]
	if !ok {
		return nil, false
	}
	return h, true
}

func vUpper(s string) string {
	b := []byte(s)
	for i, c := range b {
		if c >= 'a' && c <= 'z' {
			b[i] = c - 32
		}
	}
	return string(b)
}

func (a *vAPI) ServeErrorFor(op string) func(http.ResponseWriter, *http.Request, error) {
	return func(rw http.ResponseWriter, r *http.Request, err error) {
		vRec.servedErr = err
		vRec.errCount++
		vRec.errOp = op
	}
}

func (a *vAPI) ConsumersFor(mts []string) map[string]runtime.Consumer {
	res := map[string]runtime.Consumer{}
	for _, mt := range mts {
		if a.noConsumer[mt] {
			continue
		}
		mt := mt
		res[mt] = runtime.ConsumerFunc(func(r io.Reader, data interface{}) error {
			vRec.consumed = append(vRec.consumed, mt)
			return nil
		})
	}
	return res
}

func (a *vAPI) ProducersFor(mts []string) map[string]runtime.Producer {
	res := map[string]runtime.Producer{}
	for _, mt := range mts {
		if a.noProducer[mt] {
			continue
		}
		mt := mt
		res[mt] = runtime.ProducerFunc(func(w io.Writer, data interface{}) error {
			vRec.produced = append(vRec.produced, mt)
			vRec.prodData = append(vRec.prodData, data)
			return nil
		})
	}
	return res
}

func (a *vAPI) AuthenticatorsFor(defs map[string]spec.SecurityScheme) map[string]runtime.Authenticator {
	res := map[string]runtime.Authenticator{}
	for name := range defs {
		if au, ok := a.auths[name]; ok {
			res[name] = au
		}
	}
	return res
}

func (a *vAPI) Authorizer() runtime.Authorizer { return a.authorizer }
func (a *vAPI) Formats() strfmt.Registry        { return a.formats }
func (a *vAPI) DefaultProduces() string         { return a.defProd }
func (a *vAPI) DefaultConsumes() string         { return a.defCons }

// ---- recording response writer ----

type vWriter struct {
	hdr    http.Header
	status int
	nwh    int
	body   []byte
}

func vNewWriter() *vWriter { return &vWriter{hdr: http.Header{}} }

func (w *vWriter) Header() http.Header { return w.hdr }
func (w *vWriter) WriteHeader(code int) {
	w.status = code
	w.nwh++
}
func (w *vWriter) Write(p []byte) (int, error) {
	if w.status == 0 {
		w.status = 200
	}
	w.body = append(w.body, p...)
	return len(p), nil
}

func vContains(set []string, s string) bool {
	for _, x := range set {
		if x == s {
			return true
		}
	}
	return false
}
