//go:build verif

package runtime

// C15 — built-in codecs (text, byte stream) never truncate, alias or panic.

import (
	"errors"
	"io"

	zv "github.com/go-openapi/runtime/internal/zzverif"
)

var errC15Src = errors.New("c15: source failure")
var errC15Dst = errors.New("c15: sink failure")

// c15Reader: nondeterministic chunking, ≤2 consecutive empty reads, data+terminal,
// EOF or failure after any byte.
type c15Reader struct {
	data    []byte
	pos     int
	failAt  int
	term    error
	empties int
	closed  int
}

func (s *c15Reader) Read(p []byte) (int, error) {
	remaining := s.failAt - s.pos
	if remaining == 0 {
		return 0, s.term
	}
	max := len(p)
	if remaining < max {
		max = remaining
	}
	if max == 0 {
		return 0, nil
	}
	lo := 0
	if s.empties >= 2 {
		lo = 1
	}
	n := lo + zv.Choose("chunk", max+1-lo)
	if n == 0 {
		s.empties++
		return 0, nil
	}
	s.empties = 0
	copy(p, s.data[s.pos:s.pos+n])
	s.pos += n
	if s.pos == s.failAt && zv.Choose("data+term", 2) == 1 {
		return n, s.term
	}
	return n, nil
}

type c15ReadCloser struct{ c15Reader }

func (s *c15ReadCloser) Close() error { s.closed++; return nil }

// a payload that is both a ReadCloser and a WriterTo (like *os.File)
type c15File struct{ c15ReadCloser }

func (s *c15File) WriteTo(w io.Writer) (int64, error) {
	n, err := w.Write(s.data[s.pos:s.failAt])
	s.pos += n
	if err == nil && s.term != io.EOF {
		err = s.term
	}
	return int64(n), err
}

// c15Writer: accepts bytes until failAt, then fails (short write with error).
type c15Writer struct {
	got     []byte
	failAt  int  // -1 never
	errFull bool // accepts every byte and still reports an error (also for empty writes)
	writes  int
	closed  int
}

func (w *c15Writer) Write(p []byte) (int, error) {
	w.writes++
	if w.errFull {
		w.got = append(w.got, p...)
		return len(p), errC15Dst
	}
	if w.failAt >= 0 && len(w.got)+len(p) > w.failAt {
		n := w.failAt - len(w.got)
		if n < 0 {
			n = 0
		}
		w.got = append(w.got, p[:n]...)
		return n, errC15Dst
	}
	w.got = append(w.got, p...)
	return len(p), nil
}

type c15WriteCloser struct{ c15Writer }

func (w *c15WriteCloser) Close() error { w.closed++; return nil }

type c15ReaderFrom struct{ got []byte }

func (d *c15ReaderFrom) ReadFrom(r io.Reader) (int64, error) {
	b, err := io.ReadAll(r)
	d.got = append(d.got, b...)
	return int64(len(b)), err
}

type c15Bin struct{ got []byte }

func (d *c15Bin) UnmarshalBinary(b []byte) error { d.got = append([]byte(nil), b...); return nil }
func (d *c15Bin) MarshalBinary() ([]byte, error)  { return d.got, nil }
func (d *c15Bin) UnmarshalText(b []byte) error    { d.got = append([]byte(nil), b...); return nil }
func (d *c15Bin) MarshalText() ([]byte, error)    { return d.got, nil }

type c15Str string
type c15Bytes []byte
type c15Stringer struct{ s string }

func (s c15Stringer) String() string { return s.s }

func c15Source(n int) (data []byte, failAt int, term error) {
	data = zv.Bytes("content", n)
	failAt, term = n, io.EOF
	if zv.Choose("srcFails", 2) == 1 {
		term = errC15Src
		failAt = zv.Choose("srcFailAt", n+1)
	}
	return
}

func c15Same(got, want []byte) bool {
	if len(got) != len(want) {
		return false
	}
	ok := true
	for k := range got {
		ok = zv.And(ok, got[k] == want[k])
	}
	return ok
}

// VerifC15ByteStreamConsume: bytes stored are exactly the bytes read.
func VerifC15ByteStreamConsume() {
	n := zv.Choose("len", zv.Param("len", 2)+1)
	data, failAt, term := c15Source(n)
	closes := zv.Choose("closes", 2) == 1
	var cons Consumer
	if closes {
		cons = ByteStreamConsumer(ClosesStream)
	} else {
		cons = ByteStreamConsumer()
	}
	src := &c15ReadCloser{c15Reader{data: data, failAt: failAt, term: term}}
	var reader io.Reader = src
	plain := zv.Choose("plainReader", 2) == 1
	if plain {
		reader = &src.c15Reader
	}

	var dst interface{}
	var read func() ([]byte, bool) // stored bytes, supported
	var s string
	var b []byte
	var ns c15Str
	var nb c15Bytes
	var anyS interface{} = "old"
	var anyB interface{} = []byte("old")
	var anyI interface{} = 7
	var i int
	w := &c15Writer{failAt: -1}
	rf := &c15ReaderFrom{}
	bin := &c15Bin{}
	kind := zv.Choose("dest", 14)
	switch kind {
	case 0:
		dst, read = &s, func() ([]byte, bool) { return []byte(s), true }
	case 1:
		dst, read = &b, func() ([]byte, bool) { return b, true }
	case 2:
		dst, read = &ns, func() ([]byte, bool) { return []byte(ns), true }
	case 3:
		dst, read = &nb, func() ([]byte, bool) { return nb, true }
	case 4:
		dst, read = &anyS, func() ([]byte, bool) { v, _ := anyS.(string); return []byte(v), true }
	case 5:
		dst, read = &anyB, func() ([]byte, bool) { v, _ := anyB.([]byte); return v, true }
	case 6:
		dst, read = w, func() ([]byte, bool) { return w.got, true }
	case 7:
		dst, read = rf, func() ([]byte, bool) { return rf.got, true }
	case 8:
		dst, read = bin, func() ([]byte, bool) { return bin.got, true }
	case 9:
		s = "pre-populated"
		dst, read = &s, func() ([]byte, bool) { return []byte(s), true }
	case 10:
		dst, read = nil, func() ([]byte, bool) { return nil, false }
	case 11:
		dst, read = "not a pointer", func() ([]byte, bool) { return nil, false }
	case 12:
		dst, read = &i, func() ([]byte, bool) { return nil, false }
	case 13:
		dst, read = &anyI, func() ([]byte, bool) { return nil, false }
	}
	var err error
	panicked := false
	func() {
		defer func() {
			if recover() != nil {
				panicked = true
			}
		}()
		err = cons.Consume(reader, dst)
	}()
	zv.Assert("consume-never-panics", !panicked)
	if panicked {
		return
	}
	got, supported := read()
	if !supported {
		zv.Reach("unsupported")
		zv.Assert("unsupported-destination-is-an-error", err != nil)
	} else if term != io.EOF {
		zv.Reach("source-fails")
		zv.Assert("read-error-is-returned-not-a-shorter-success", err != nil)
	} else {
		zv.Reach("complete")
		zv.Assert("complete-read-succeeds", err == nil)
		zv.Assert("stored-bytes-are-exactly-the-bytes-read", c15Same(got, data))
	}
	if plain {
		zv.Assert("plain-reader-untouched", src.closed == 0)
	} else if kind != 10 {
		want := 0
		if closes {
			want = 1
		}
		zv.Assert("stream-closed-iff-requested", src.closed == want)
	}
}

// VerifC15ByteStreamProduce: bytes written are exactly the source bytes.
func VerifC15ByteStreamProduce() {
	n := zv.Choose("len", zv.Param("len", 2)+1)
	data := zv.Bytes("content", n)
	closes := zv.Choose("closes", 2) == 1
	var prod Producer
	if closes {
		prod = ByteStreamProducer(ClosesStream)
	} else {
		prod = ByteStreamProducer()
	}
	wc := &c15WriteCloser{c15Writer{failAt: -1}}
	switch zv.Choose("sinkFails", 3) {
	case 1:
		wc.failAt = zv.Choose("sinkFailAt", n+1)
	case 2:
		wc.errFull = true
	}
	var writer io.Writer = wc
	plain := zv.Choose("plainWriter", 2) == 1
	if plain {
		writer = &wc.c15Writer
	}
	term := error(io.EOF)
	failAt := n
	var payload interface{}
	var closable *c15ReadCloser
	supported := true
	kind := zv.Choose("payload", 11)
	if kind >= 4 && kind <= 6 && zv.Choose("srcFails", 2) == 1 {
		term, failAt = errC15Src, zv.Choose("srcFailAt", n+1)
	}
	str := string(data)
	switch kind {
	case 0:
		payload = data
	case 1:
		payload = str
	case 2:
		payload = &str
	case 3:
		payload = c15Bytes(data)
	case 4:
		payload = &c15Reader{data: data, failAt: failAt, term: term}
	case 5:
		closable = &c15ReadCloser{c15Reader{data: data, failAt: failAt, term: term}}
		payload = closable
	case 6:
		f := &c15File{c15ReadCloser{c15Reader{data: data, failAt: failAt, term: term}}}
		closable = &f.c15ReadCloser
		payload = f
	case 7:
		payload = &c15Bin{got: data}
	case 8:
		payload = c15Str(str)
	case 9:
		payload, supported = 42, false
	case 10:
		payload, supported = nil, false
	}
	var err error
	panicked := false
	func() {
		defer func() {
			if recover() != nil {
				panicked = true
			}
		}()
		err = prod.Produce(writer, payload)
	}()
	zv.Assert("produce-never-panics", !panicked)
	if panicked {
		return
	}
	switch {
	case !supported:
		zv.Reach("unsupported")
		zv.Assert("unsupported-payload-is-an-error", err != nil)
	case term != io.EOF:
		zv.Reach("source-fails")
		zv.Assert("source-error-is-returned", err != nil)
	case wc.failAt >= 0 && wc.failAt < n:
		zv.Reach("sink-fails")
		zv.Assert("write-error-is-returned-not-a-shorter-success", err != nil)
	case wc.errFull && wc.writes > 0:
		zv.Reach("sink-reports-error-with-full-count")
		zv.Assert("write-error-is-returned-even-when-all-bytes-were-accepted", err != nil)
	default:
		zv.Reach("complete")
		zv.Assert("complete-write-succeeds", err == nil)
		zv.Assert("written-bytes-are-exactly-the-source-bytes", c15Same(wc.got, data))
	}
	if closable != nil {
		zv.Assert("closable-payload-always-closed", closable.closed == 1)
	}
	if plain || !supported && kind == 10 {
		if plain {
			zv.Assert("plain-writer-untouched", wc.closed == 0)
		}
	} else {
		want := 0
		if closes {
			want = 1
		}
		zv.Assert("sink-closed-iff-requested", wc.closed == want)
	}
}

// VerifC15Text: the text codec.
func VerifC15Text() {
	n := zv.Choose("len", zv.Param("len", 2)+1)
	data, failAt, term := c15Source(n)
	src := &c15Reader{data: data, failAt: failAt, term: term}
	var s string
	var ns c15Str
	tu := &c15Bin{}
	var i int
	var dst interface{}
	var read func() ([]byte, bool)
	switch zv.Choose("dest", 6) {
	case 0:
		dst, read = &s, func() ([]byte, bool) { return []byte(s), true }
	case 1:
		dst, read = &ns, func() ([]byte, bool) { return []byte(ns), true }
	case 2:
		dst, read = tu, func() ([]byte, bool) { return tu.got, true }
	case 3:
		dst, read = nil, func() ([]byte, bool) { return nil, false }
	case 4:
		dst, read = "value", func() ([]byte, bool) { return nil, false }
	case 5:
		dst, read = &i, func() ([]byte, bool) { return nil, false }
	}
	var err error
	panicked := false
	func() {
		defer func() {
			if recover() != nil {
				panicked = true
			}
		}()
		err = TextConsumer().Consume(src, dst)
	}()
	zv.Assert("text-consume-never-panics", !panicked)
	if panicked {
		return
	}
	got, supported := read()
	switch {
	case term != io.EOF:
		zv.Reach("source-fails")
		zv.Assert("text-read-error-is-returned", err != nil)
	case !supported && n > 0:
		zv.Reach("unsupported")
		zv.Assert("text-unsupported-destination-is-an-error", err != nil)
	case supported:
		zv.Reach("complete")
		zv.Assert("text-complete-read-succeeds", err == nil)
		zv.Assert("text-stored-is-exactly-what-was-read", c15Same(got, data))
	}

	// producer
	w := &c15Writer{failAt: -1}
	switch zv.Choose("sinkFails", 3) {
	case 1:
		w.failAt = zv.Choose("sinkFailAt", n+1)
	case 2:
		w.errFull = true
	}
	str := string(data)
	var payload interface{}
	psupported := true
	switch zv.Choose("payload", 8) {
	case 0:
		payload = str
	case 1:
		payload = &str
	case 2:
		payload = c15Str(str)
	case 3:
		payload = &c15Bin{got: data}
	case 4:
		payload = c15Stringer{str}
	case 5:
		payload = errors.New(str)
	case 6:
		payload, psupported = 42, false
	case 7:
		payload, psupported = nil, false
	}
	panicked = false
	func() {
		defer func() {
			if recover() != nil {
				panicked = true
			}
		}()
		err = TextProducer().Produce(w, payload)
	}()
	zv.Assert("text-produce-never-panics", !panicked)
	if panicked {
		return
	}
	switch {
	case !psupported:
		zv.Assert("text-unsupported-payload-is-an-error", err != nil)
	case w.failAt >= 0 && w.failAt < n:
		zv.Assert("text-write-error-is-returned", err != nil)
	case w.errFull && w.writes > 0:
		zv.Reach("text-sink-reports-error-with-full-count")
		zv.Assert("text-write-error-is-returned-even-when-all-bytes-were-accepted", err != nil)
	default:
		zv.Reach("produced")
		zv.Assert("text-complete-write-succeeds", err == nil)
		zv.Assert("text-written-is-exactly-the-source", c15Same(w.got, data))
	}
}
