//go:build verif

package runtime

// C16 — the CSV codec delivers exactly the parsed records for every source and
// destination kind.

import (
	"bytes"
	"encoding/csv"
	"io"
	"strings"

	zv "github.com/go-openapi/runtime/internal/zzverif"
)

type c16Opt struct {
	reader  csv.Reader
	writer  csv.Writer
	skipped int
}

var c16Opts = []c16Opt{
	{},
	{skipped: 1},
	{reader: csv.Reader{Comma: ';'}, writer: csv.Writer{Comma: ';'}},
	{reader: csv.Reader{Comment: '#', LazyQuotes: true}},
	{reader: csv.Reader{TrimLeadingSpace: true, FieldsPerRecord: -1}, writer: csv.Writer{UseCRLF: true}},
	{reader: csv.Reader{ReuseRecord: true}},
	{reader: csv.Reader{FieldsPerRecord: 2}, skipped: 2},
	{reader: csv.Reader{ReuseRecord: true, FieldsPerRecord: -1}, skipped: 3},
}

func (o c16Opt) opts() []CSVOpt {
	return []CSVOpt{WithCSVReaderOpts(o.reader), WithCSVWriterOpts(o.writer), WithCSVSkipLines(o.skipped)}
}

// c16Ref: the standard parse of text under the reader options, skipped lines dropped.
func c16Ref(text string, o c16Opt) ([][]string, error) {
	r := csv.NewReader(strings.NewReader(text))
	if o.reader.Comma != 0 {
		r.Comma = o.reader.Comma
	}
	if o.reader.Comment != 0 {
		r.Comment = o.reader.Comment
	}
	if o.reader.FieldsPerRecord != 0 {
		r.FieldsPerRecord = o.reader.FieldsPerRecord
	}
	r.LazyQuotes = o.reader.LazyQuotes
	r.TrimLeadingSpace = o.reader.TrimLeadingSpace
	for k := 0; k < o.skipped; k++ {
		if _, err := r.Read(); err != nil {
			if err == io.EOF {
				return nil, nil
			}
			return nil, err
		}
	}
	recs, err := r.ReadAll()
	return recs, err
}

func c16Parse(out []byte, o c16Opt) ([][]string, error) {
	r := csv.NewReader(bytes.NewReader(out))
	if o.writer.Comma != 0 {
		r.Comma = o.writer.Comma
	}
	r.FieldsPerRecord = -1
	return r.ReadAll()
}

func c16SameRecords(got, want [][]string) bool {
	if len(got) != len(want) {
		return false
	}
	ok := true
	for i := range got {
		if len(got[i]) != len(want[i]) {
			return false
		}
		for j := range got[i] {
			ok = zv.And(ok, zv.StrEq(got[i][j], want[i][j]))
		}
	}
	return ok
}

type c16Recs struct {
	recs    [][]string
	flushed int
}

func (w *c16Recs) Write(r []string) error {
	w.recs = append(w.recs, append([]string(nil), r...))
	return nil
}
func (w *c16Recs) Flush()       { w.flushed++ }
func (w *c16Recs) Error() error { return nil }

type c16RF struct{ buf bytes.Buffer }

func (d *c16RF) ReadFrom(r io.Reader) (int64, error) { return d.buf.ReadFrom(r) }

type c16BU struct{ b []byte }

func (d *c16BU) UnmarshalBinary(b []byte) error { d.b = append([]byte(nil), b...); return nil }
func (d *c16BU) MarshalBinary() ([]byte, error)  { return d.b, nil }

type c16WT struct{ b []byte }

func (d *c16WT) WriteTo(w io.Writer) (int64, error) {
	n, err := w.Write(d.b)
	return int64(n), err
}

func c16Text() string {
	n := zv.Param("textlen", 3)
	t := zv.String("text", n)
	for k := 0; k < len(t); k++ {
		// carriage returns are not round-tripped by the standard writer/reader pair
		// used to read results back: outside the oracle
		zv.Assume(t[k] != '\r')
		if zv.Param("ascii", 1) == 1 {
			zv.Assume(t[k] < 0x80)
		}
	}
	return t
}

// VerifC16Consume: every destination kind receives the standard parse.
func VerifC16Consume() {
	oi := zv.Choose("opts", zv.Param("optsets", len(c16Opts)))
	o := c16Opts[oi]
	text := c16Text()
	want, werr := c16Ref(text, o)

	var dst interface{}
	var result func() ([][]string, error)
	var table [][]string
	var bts []byte
	var str string
	var buf bytes.Buffer
	recs := &c16Recs{}
	rf := &c16RF{}
	bu := &c16BU{}
	kind := zv.Choose("dest", 10)
	switch kind {
	case 0:
		dst, result = &table, func() ([][]string, error) { return table, nil }
	case 1: // pre-populated, shorter or equal
		table = [][]string{{"old"}}
		dst, result = &table, func() ([][]string, error) { return table, nil }
	case 2: // pre-populated, longer than any input of the bound
		table = [][]string{{"o1"}, {"o2"}, {"o3"}, {"o4"}, {"o5"}}
		dst, result = &table, func() ([][]string, error) { return table, nil }
	case 3:
		w := csv.NewWriter(&buf)
		dst, result = w, func() ([][]string, error) { return c16Parse(buf.Bytes(), o) }
	case 4:
		dst, result = recs, func() ([][]string, error) { return recs.recs, nil }
	case 5:
		dst, result = &buf, func() ([][]string, error) { return c16Parse(buf.Bytes(), o) }
	case 6:
		dst, result = rf, func() ([][]string, error) { return c16Parse(rf.buf.Bytes(), o) }
	case 7:
		dst, result = bu, func() ([][]string, error) { return c16Parse(bu.b, o) }
	case 8:
		dst, result = &bts, func() ([][]string, error) { return c16Parse(bts, o) }
	case 9:
		dst, result = &str, func() ([][]string, error) { return c16Parse([]byte(str), o) }
	}
	var err error
	var cons Consumer
	panicked := false
	func() {
		defer func() {
			if recover() != nil {
				panicked = true
			}
		}()
		cons = CSVConsumer(o.opts()...)
		err = cons.Consume(strings.NewReader(text), dst)
	}()
	zv.AssertExcept("csv-consume-never-panics", !panicked, kind == 1 || kind == 2, "KF-C16-longer-destination-setcap")
	if panicked {
		return
	}
	if werr != nil {
		zv.Reach("malformed")
		zv.Assert("malformed-input-yields-the-parsers-error", err != nil)
		return
	}
	zv.Reach("wellformed")
	zv.Assert("wellformed-input-consumed", err == nil)
	if err != nil {
		return
	}
	got, perr := result()
	zv.Assert("output-reparses", perr == nil)
	if perr != nil {
		return
	}
	// a record with a single empty field is written as an empty line, which a
	// re-parse drops: compare modulo such records for the byte-level kinds
	if kind >= 3 && kind != 4 {
		want = c16DropEmpty(want)
		got = c16DropEmpty(got)
	}
	zv.AssertExcept("delivered-records-are-the-standard-parse", c16SameRecords(got, want), o.reader.ReuseRecord && kind <= 2, "KF-C16-reuse-record-aliasing")
	if kind <= 2 {
		// delivered records are independent of one another: growing one in place
		// (adding a column) leaves the others as delivered
		for i := range table {
			table[i] = append(table[i], "extra")
		}
		ok := len(table) == len(want)
		for i := 0; ok && i < len(table); i++ {
			ok = len(table[i]) == len(want[i])+1 && c16SameRecords([][]string{table[i][:len(want[i])]}, [][]string{want[i]})
		}
		zv.Assert("delivered-records-do-not-share-storage", ok)
	}
	if kind == 0 {
		// the consumer can be used again: a second call delivers the same parse
		zv.Reach("second-call")
		var again [][]string
		err2 := cons.Consume(strings.NewReader(text), &again)
		zv.Assert("second-call-on-the-same-consumer-succeeds", err2 == nil)
		if err2 == nil {
			zv.Assert("second-call-delivers-the-same-records", c16SameRecords(again, want))
		}
	}
}

func c16DropEmpty(recs [][]string) [][]string {
	var out [][]string
	for _, r := range recs {
		if len(r) == 1 && r[0] == "" {
			continue
		}
		out = append(out, r)
	}
	return out
}

// VerifC16Produce: every source kind delivers the standard parse to the writer.
func VerifC16Produce() {
	oi := zv.Choose("opts", zv.Param("optsets", len(c16Opts)))
	o := c16Opts[oi]
	text := c16Text()
	want, werr := c16Ref(text, o)

	var src interface{}
	kind := zv.Choose("source", 8)
	switch kind {
	case 0:
		src = csv.NewReader(strings.NewReader(text))
	case 1:
		// a CSVReader object: records of the unskipped standard parse
		all, aerr := c16Ref(text, c16Opt{reader: o.reader})
		if aerr != nil {
			return
		}
		src = &csvRecordsWriter{records: all}
	case 2:
		src = strings.NewReader(text)
	case 3:
		src = &c16WT{b: []byte(text)}
	case 4:
		src = &c16BU{b: []byte(text)}
	case 5:
		all, aerr := c16Ref(text, c16Opt{reader: o.reader})
		if aerr != nil {
			return
		}
		src = all
	case 6:
		src = []byte(text)
	case 7:
		src = text
	}
	var out bytes.Buffer
	var err error
	panicked := false
	func() {
		defer func() {
			if recover() != nil {
				panicked = true
			}
		}()
		err = CSVProducer(o.opts()...).Produce(&out, src)
	}()
	zv.Assert("csv-produce-never-panics", !panicked)
	if panicked {
		return
	}
	zv.Assert("no-goroutine-left-behind", zv.Goroutines() == 0)
	if werr != nil {
		zv.Reach("malformed")
		zv.Assert("malformed-source-yields-the-parsers-error", err != nil)
		return
	}
	zv.Reach("wellformed")
	zv.Assert("wellformed-source-produced", err == nil)
	if err != nil {
		return
	}
	got, perr := c16Parse(out.Bytes(), o)
	zv.Assert("output-reparses", perr == nil)
	if perr != nil {
		return
	}
	zv.Assert("produced-records-are-the-standard-parse", c16SameRecords(c16DropEmpty(got), c16DropEmpty(want)))
}
