//go:build verif

package runtime

// C17 — probing a request for a body never loses, reorders or fabricates body bytes.

import (
	"errors"
	"io"
	"net/http"

	zv "github.com/go-openapi/runtime/internal/zzverif"
)

var errC17Src = errors.New("c17: source failure")
var errC17Closed = errors.New("c17: read after close")

// c17Src is an underlying body whose chunking and terminal condition are
// nondeterministic: any chunk size, empty reads (at most two in a row), data
// together with the terminal error, EOF or a failure after any byte.
type c17Src struct {
	data       []byte
	pos        int
	term       error
	failAt     int // position at which term is delivered (== len(data) for EOF)
	empties    int
	closed     int
	afterClose int
	closeErr   error // what closing the underlying stream reports
}

func (s *c17Src) Read(p []byte) (int, error) {
	if s.closed > 0 {
		s.afterClose++
		return 0, errC17Closed
	}
	remaining := s.failAt - s.pos
	if remaining == 0 {
		return 0, s.term
	}
	max := len(p)
	if remaining < max {
		max = remaining
	}
	if max == 0 {
		return 0, nil
	}
	lo := 0
	if s.empties >= 2 {
		lo = 1
	}
	n := lo + zv.Choose("chunk", max+1-lo)
	if n == 0 {
		s.empties++
		return 0, nil
	}
	s.empties = 0
	copy(p, s.data[s.pos:s.pos+n])
	s.pos += n
	if s.pos == s.failAt && zv.Choose("data+term", 2) == 1 {
		return n, s.term
	}
	return n, nil
}

func (s *c17Src) Close() error {
	s.closed++
	return s.closeErr
}

// VerifC17Probe: arbitrary sequences of HasBody / Read / Close.
func VerifC17Probe() {
	n := zv.Choose("len", zv.Param("bodylen", 2)+1)
	data := zv.Bytes("body", n)
	src := &c17Src{data: data, term: io.EOF, failAt: n}
	if zv.Choose("fails", 2) == 1 {
		src.term = errC17Src
		src.failAt = zv.Choose("failAt", n+1)
	}
	if zv.Choose("close-fails", 2) == 1 {
		src.closeErr = errC17Src
	}
	r := &http.Request{Header: http.Header{}, Body: src}
	switch zv.Choose("declared", 3) {
	case 0: // nothing declared
	case 1:
		r.ContentLength = zv.Int64("ContentLength")
	case 2:
		r.Header.Set("Content-Length", []string{"0", "7"}[zv.Choose("clhdr", 2)])
	}
	declaredPositive := r.ContentLength > 0
	declaredOther := r.Header.Get("Content-Length") != ""

	var got []byte   // bytes delivered through r.Body so far
	var gotErr error // first error delivered through r.Body
	closed := false
	lastProbe, haveLast := false, false
	steps := zv.Param("steps", 3)
	for k := 0; k < steps; k++ {
		op := zv.Choose("op", 4)
		switch op {
		case 0: // probe
			if closed {
				break // probing a body the caller already closed is outside the property
			}
			ans := HasBody(r)
			zv.Reach("probe")
			if haveLast {
				zv.Assert("asking-again-same-answer", ans == lastProbe)
			}
			lastProbe, haveLast = ans, true
			if !closed && gotErr == nil {
				readable := src.failAt-len(got) > 0
				want := declaredPositive || (!declaredOther && readable)
				zv.Assert("answer-iff-declared-or-byte-readable", ans == want)
			}
		case 1: // read
			haveLast = false
			buf := make([]byte, []int{0, 1, 2, 8}[zv.Choose("bufsz", 4)])
			m, err := r.Body.Read(buf)
			zv.Assert("read-count-in-range", m >= 0 && m <= len(buf))
			if closed {
				if r.Body != io.ReadCloser(src) {
					zv.Reach("read-after-close")
					zv.Assert("read-after-close-fails", err != nil && m == 0)
				}
				break
			}
			if gotErr != nil {
				break // stream already ended
			}
			got = append(got, buf[:m]...)
			if err != nil {
				gotErr = err
			}
		case 2: // close
			haveLast = false
			if closed && r.Body == io.ReadCloser(src) {
				break // closing the raw source twice is the caller's own doing
			}
			err := r.Body.Close()
			if !closed {
				zv.Reach("close")
				zv.Assert("first-close-reports-the-underlying-result", err == src.closeErr)
			}
			closed = true
			zv.Assert("underlying-closed-exactly-once", src.closed == 1)
		case 3: // stop early
			k = steps
		}
	}
	// drain what is left and compare the whole stream with the original
	if !closed {
		for i := 0; i < 3*(n+2) && gotErr == nil; i++ {
			buf := make([]byte, 2)
			m, err := r.Body.Read(buf)
			got = append(got, buf[:m]...)
			if err != nil {
				gotErr = err
			}
		}
		zv.Reach("drained")
		zv.Assert("stream-ends", gotErr != nil)
		zv.Assert("terminal-condition-preserved", gotErr == src.term)
		zv.Assert("no-byte-lost-or-added", len(got) == src.failAt)
	}
	zv.Assert("delivered-bytes-are-a-prefix", len(got) <= src.failAt)
	for i := 0; i < len(got) && i < src.failAt; i++ {
		zv.Assert("bytes-in-order", got[i] == data[i])
	}
	zv.Assert("underlying-never-closed-twice", src.closed <= 1)
	zv.Observe("got", got)
	zv.Observe("nclosed", src.closed)
}

// VerifC17NilBody: a request without a body can be probed and closed.
func VerifC17NilBody() {
	r := &http.Request{Header: http.Header{}}
	if zv.Choose("declared", 2) == 1 {
		r.ContentLength = zv.Int64("ContentLength")
	}
	ans := HasBody(r)
	zv.Assert("nil-body-answer", ans == (r.ContentLength > 0))
	again := HasBody(r)
	zv.Assert("nil-body-asking-again", ans == again)
	if r.Body != nil {
		zv.Reach("body-installed")
		buf := make([]byte, 1)
		m, err := r.Body.Read(buf)
		zv.Assert("nil-body-reads-nothing", m == 0 && err != nil)
		panicked := false
		func() {
			defer func() {
				if recover() != nil {
					panicked = true
				}
			}()
			_ = r.Body.Close()
		}()
		zv.AssertExcept("nil-body-close-never-panics", !panicked, true, "KF-C17-nil-body-close")
	}
}
