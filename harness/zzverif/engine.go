//go:build verif && !verif_replay

// Package zzverif is the harness API of the /verif machinery (engine view).
// Every function here is intercepted by the symbolic engine; the bodies only
// exist so that the package type-checks. See native.go for the replay
// implementation compiled by the ordinary Go toolchain.
package zzverif

func Byte(name string) byte     { panic("zzverif: engine only") }
func Bool(name string) bool     { panic("zzverif: engine only") }
func Int64(name string) int64   { panic("zzverif: engine only") }
func Uint64(name string) uint64 { panic("zzverif: engine only") }
func Int32(name string) int32   { panic("zzverif: engine only") }

func Choose(name string, n int) int     { panic("zzverif: engine only") }
func Bytes(name string, n int) []byte   { panic("zzverif: engine only") }
func StringN(name string, n int) string { panic("zzverif: engine only") }

// String returns a string of 0..max arbitrary bytes (length is a decision).
func String(name string, max int) string {
	n := Choose(name+".len", max+1)
	return StringN(name, n)
}

func Param(name string, def int) int { panic("zzverif: engine only") }

func Assume(cond bool)                                                { panic("zzverif: engine only") }
func Assert(label string, cond bool)                                  { panic("zzverif: engine only") }
func AssertExcept(label string, cond bool, known bool, knownID string) { panic("zzverif: engine only") }
func Reach(label string)                                              { panic("zzverif: engine only") }
func Observe(name string, v interface{})                              { panic("zzverif: engine only") }
func Goroutines() int                                                 { panic("zzverif: engine only") }
func Symbolic() bool                                                  { panic("zzverif: engine only") }
func Concrete(x int) int                                              { panic("zzverif: engine only") }
func IsSym(v interface{}) bool                                        { panic("zzverif: engine only") }
func BeginShared(roots ...interface{})                                { panic("zzverif: engine only") }
func EndShared()                                                      { panic("zzverif: engine only") }
func SetField(ptr interface{}, name string, val interface{})          { panic("zzverif: engine only") }

func And(a, b bool) bool         { panic("zzverif: engine only") }
func Or(a, b bool) bool          { panic("zzverif: engine only") }
func Not(a bool) bool            { panic("zzverif: engine only") }
func Implies(a, b bool) bool     { panic("zzverif: engine only") }
func Ite(c bool, x, y byte) byte { panic("zzverif: engine only") }
func StrEq(a, b string) bool     { panic("zzverif: engine only") }
func BytesEq(a, b []byte) bool   { panic("zzverif: engine only") }

func Cached(key string, f func() interface{}) interface{} { panic("zzverif: engine only") }

func Stub(name string, fn interface{}) { panic("zzverif: engine only") }
