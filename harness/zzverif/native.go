//go:build verif && verif_replay

// Package zzverif is the harness API of the /verif machinery. It is injected
// into the build as an overlay (never committed to the repository).
//
// Under the symbolic engine (symgo) every function below is intercepted: draws
// become SMT variables or forking decisions, Assert becomes a solver query.
// Compiled natively (go test -tags verif -overlay …) the same functions replay a
// recorded vector of draw values, so that a solver counterexample or a sampled
// witness path can be re-run against the real build.
package zzverif

import (
	"encoding/json"
	"fmt"
	"os"
	"reflect"
	"runtime"
	"sort"
	"strconv"
	"strings"
	"testing"
	"time"
	"unsafe"
)

type DrawVal struct {
	Kind string `json:"kind"`
	Name string `json:"name"`
	Val  int64  `json:"val"`
}

// Case is one recorded execution to replay.
type Case struct {
	Harness string         `json:"harness"`
	Draws   []DrawVal      `json:"draws"`
	Params  map[string]int `json:"params"`
	// Retries > 0: a run that ends "ok" is repeated up to Retries times (the
	// outcome depends on a map iteration order Go randomises).
	Retries int `json:"retries,omitempty"`
}

type Result struct {
	Idx      int               `json:"idx"`
	Harness  string            `json:"harness"`
	Outcome  string            `json:"outcome"` // ok | assert | known | panic
	Label    string            `json:"label,omitempty"`
	KnownID  string            `json:"known_id,omitempty"`
	Msg      string            `json:"msg,omitempty"`
	Observes map[string]string `json:"observes"`
	Reach    []string          `json:"reach,omitempty"`
	Diverged bool              `json:"diverged"`
}

type stop struct{}

var (
	cur     *Case
	pos     int
	res     *Result
	baseGor int
)

func next(kind string) int64 {
	if cur == nil {
		panic("zzverif: draw outside a replay")
	}
	if pos >= len(cur.Draws) {
		res.Diverged = true
		return 0
	}
	d := cur.Draws[pos]
	pos++
	if d.Kind != kind {
		res.Diverged = true
	}
	return d.Val
}

func Byte(name string) byte     { return byte(next("byte")) }
func Bool(name string) bool     { return next("bool") != 0 }
func Int64(name string) int64   { return next("int64") }
func Uint64(name string) uint64 { return uint64(next("uint64")) }
func Int32(name string) int32   { return int32(next("int32")) }

// Choose returns an arbitrary value in [0,n): every alternative is explored.
func Choose(name string, n int) int {
	v := int(next("choose"))
	if v < 0 || v >= n {
		res.Diverged = true
		return 0
	}
	return v
}

// Bytes returns n arbitrary bytes.
func Bytes(name string, n int) []byte {
	b := make([]byte, n)
	for i := range b {
		b[i] = byte(next("byte"))
	}
	return b
}

// StringN returns a string of exactly n arbitrary bytes.
func StringN(name string, n int) string { return string(Bytes(name, n)) }

// String returns a string of 0..max arbitrary bytes (length is a decision).
func String(name string, max int) string {
	n := Choose(name+".len", max+1)
	return StringN(name, n)
}

// Param returns a tier-dependent bound.
func Param(name string, def int) int {
	if cur != nil {
		if v, ok := cur.Params[name]; ok {
			return v
		}
	}
	return def
}

func Assume(cond bool) {
	if !cond {
		res.Diverged = true
		panic(stop{})
	}
}

func Assert(label string, cond bool) {
	if !cond {
		res.Outcome, res.Label = "assert", label
		panic(stop{})
	}
}

// AssertExcept is Assert, except that failures for which known holds are
// attributed to the known finding knownID.
func AssertExcept(label string, cond bool, known bool, knownID string) {
	if !cond {
		if known {
			res.Outcome, res.Label, res.KnownID = "known", label, knownID
		} else {
			res.Outcome, res.Label = "assert", label
		}
		panic(stop{})
	}
}

func Reach(label string) { res.Reach = append(res.Reach, label) }

func Observe(name string, v interface{}) { res.Observes[name] = canon(v) }

// Goroutines lets all other goroutines run until they block and returns how
// many goroutines started since the harness began are still alive.
func Goroutines() int {
	for i := 0; i < 20; i++ {
		runtime.Gosched()
		time.Sleep(5 * time.Millisecond)
		if runtime.NumGoroutine() <= baseGor {
			break
		}
	}
	n := runtime.NumGoroutine() - baseGor
	if n < 0 {
		n = 0
	}
	return n
}

// Symbolic reports whether the harness runs under the symbolic engine.
func Symbolic() bool { return false }

// Concrete forks over the feasible values of x (engine); identity natively.
func Concrete(x int) int { return x }

func IsSym(v interface{}) bool { return false }

func BeginShared(roots ...interface{}) {}
func EndShared()                       {}

// SetField sets the (possibly unexported) field name of the struct ptr points to.
func SetField(ptr interface{}, name string, val interface{}) {
	f := reflect.ValueOf(ptr).Elem().FieldByName(name)
	f = reflect.NewAt(f.Type(), unsafe.Pointer(f.UnsafeAddr())).Elem()
	if val == nil {
		f.Set(reflect.Zero(f.Type()))
		return
	}
	f.Set(reflect.ValueOf(val))
}

// Non-forking boolean connectives (plain Go natively).
func And(a, b bool) bool     { return a && b }
func Or(a, b bool) bool      { return a || b }
func Not(a bool) bool        { return !a }
func Implies(a, b bool) bool { return !a || b }
func Ite(c bool, x, y byte) byte {
	if c {
		return x
	}
	return y
}
func StrEq(a, b string) bool   { return a == b }
func BytesEq(a, b []byte) bool { return string(a) == string(b) }

func canon(v interface{}) string {
	switch v := v.(type) {
	case nil:
		return "nil"
	case string:
		return strconv.Quote(v)
	case []byte:
		return strconv.Quote(string(v))
	case bool:
		return fmt.Sprint(v)
	case []string:
		parts := make([]string, len(v))
		for i, s := range v {
			parts[i] = strconv.Quote(s)
		}
		return "[" + strings.Join(parts, ",") + "]"
	}
	rv := reflect.ValueOf(v)
	switch rv.Kind() {
	case reflect.Int, reflect.Int8, reflect.Int16, reflect.Int32, reflect.Int64:
		return strconv.FormatInt(rv.Int(), 10)
	case reflect.Uint, reflect.Uint8, reflect.Uint16, reflect.Uint32, reflect.Uint64, reflect.Uintptr:
		return strconv.FormatUint(rv.Uint(), 10)
	case reflect.String:
		return strconv.Quote(rv.String())
	case reflect.Bool:
		return fmt.Sprint(rv.Bool())
	case reflect.Float32, reflect.Float64:
		return fmt.Sprint(rv.Float())
	case reflect.Slice:
		parts := make([]string, rv.Len())
		for i := range parts {
			parts[i] = canon(rv.Index(i).Interface())
		}
		return "[" + strings.Join(parts, ",") + "]"
	}
	return "<" + rv.Type().String() + ">"
}

// RunReplay replays every case of the file named by $VERIF_REPLAY.
func RunReplay(t *testing.T, harnesses map[string]func()) {
	path := os.Getenv("VERIF_REPLAY")
	if path == "" {
		t.Skip("VERIF_REPLAY not set")
	}
	data, err := os.ReadFile(path)
	if err != nil {
		t.Fatal(err)
	}
	var cases []Case
	if err := json.Unmarshal(data, &cases); err != nil {
		t.Fatal(err)
	}
	for idx := range cases {
		c := &cases[idx]
		fn := harnesses[c.Harness]
		r := &Result{Idx: idx, Harness: c.Harness, Outcome: "ok", Observes: map[string]string{}}
		if fn == nil {
			r.Outcome, r.Msg = "panic", "unknown harness"
		} else {
			runOne(c, r, fn)
			for try := 0; try < c.Retries && r.Outcome == "ok"; try++ {
				*r = Result{Idx: idx, Harness: c.Harness, Outcome: "ok", Observes: map[string]string{}}
				runOne(c, r, fn)
			}
		}
		sort.Strings(r.Reach)
		out, _ := json.Marshal(r)
		fmt.Printf("VERIF-RESULT %s\n", out)
	}
}

func runOne(c *Case, r *Result, fn func()) {
	cur, pos, res = c, 0, r
	baseGor = runtime.NumGoroutine()
	defer func() {
		if p := recover(); p != nil {
			if _, ok := p.(stop); ok {
				return
			}
			r.Outcome = "panic"
			r.Msg = fmt.Sprint(p)
		}
		cur = nil
	}()
	fn()
}

// Cached runs the concrete setup f (the engine reuses its result across paths).
func Cached(key string, f func() interface{}) interface{} { return f() }

// Stub redirects a function to a harness stub under the engine; natively the
// real function runs (harnesses choose inputs that realise the same outcome).
func Stub(name string, fn interface{}) {}
